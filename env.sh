# sourced by every script in /verif
export GOFLAGS=-mod=mod GOPROXY=off GOSUMDB=off GOTOOLCHAIN=local CARGO_NET_OFFLINE=true PIP_NO_INDEX=1
export PATH=/opt/veriftools/go1.26.8/bin:$PATH
