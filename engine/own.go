package main

import (
	"fmt"
	"go/types"
	"strings"

	"golang.org/x/tools/go/ssa"
)

// ---------------------------------------------------------------------------------------------
// Ownership obligations (DESIGN §3.1):   //@ guarded (*T).field by <lockfield> [deep]
// Every load / store of the field through a *T - and, with `deep`, every operation on a map that was read
// out of it (and on the inner maps read out of those) - obliges that the goroutine holds x.<lockfield>:
// the write lock for modifications, the read or write lock for reads. Values obtained from a guarded map
// by a copying call (maps.Clone) are not guarded. The obligations are generated in every function the
// engine verifies, for every access it sees - this is a lockset argument phrased as proof obligations.
// ---------------------------------------------------------------------------------------------

type guardDecl struct {
	typeName string // canonical "pkg.T"
	field    string
	lock     string // name of the lock field in the same struct
	deep     bool
	atomic   bool // guarded ... by atomic: only sync/atomic access allowed
	file     string
	line     int
}

func (e *Engine) guardDecls() []guardDecl {
	if e.guards != nil {
		return e.guards
	}
	e.guards = []guardDecl{}
	for _, b := range e.db.Guarded {
		// guarded (*T).f by lockfield [deep]
		h := strings.TrimSpace(strings.TrimPrefix(b.Header, "guarded"))
		parts := strings.Fields(h)
		if len(parts) < 3 || parts[1] != "by" {
			continue
		}
		recv := parts[0]
		k := strings.LastIndex(recv, ").")
		if k < 0 {
			continue
		}
		tn := strings.TrimPrefix(recv[:k], "(")
		tn = strings.TrimPrefix(tn, "*")
		if !strings.Contains(tn, ".") && b.Pkg != "" {
			tn = b.Pkg + "." + tn
		}
		g := guardDecl{typeName: tn, field: recv[k+2:], lock: parts[2], file: b.File, line: b.Line}
		if g.lock == "atomic" {
			g.atomic = true
		}
		for _, p := range parts[3:] {
			if p == "deep" {
				g.deep = true
			}
		}
		e.guards = append(e.guards, g)
	}
	return e.guards
}

type guardTag struct {
	lock *Term  // address of the lock
	what string // description
}

// guardOf: if addr is &x.f for a guarded field f, return the lock address term.
func (fr *Frame) guardOfFieldAddr(fa *ssa.FieldAddr) (*guardDecl, *Term) {
	pt, ok := fa.X.Type().Underlying().(*types.Pointer)
	if !ok {
		return nil, nil
	}
	named, ok := types.Unalias(pt.Elem()).(*types.Named)
	if !ok {
		return nil, nil
	}
	st, ok := named.Underlying().(*types.Struct)
	if !ok {
		return nil, nil
	}
	tn := named.Obj().Pkg().Path() + "." + named.Obj().Name()
	fname := st.Field(fa.Field).Name()
	for i, g := range fr.fc.eng.guardDecls() {
		if g.typeName != tn || g.field != fname {
			continue
		}
		if g.atomic {
			return &fr.fc.eng.guards[i], nil
		}
		li := fieldIndex(st, g.lock)
		if li < 0 {
			unsup("%s:%d: guard lock field %s not found in %s", g.file, g.line, g.lock, tn)
		}
		base, ok2 := fr.env[fa.X]
		if !ok2 {
			return nil, nil
		}
		off := fr.fc.eng.ti.FieldOffset(st, li)
		lock := MkPtr(PObj(base.T), Add(PSlot(base.T), IntLit(off)))
		return &fr.fc.eng.guards[i], lock
	}
	return nil, nil
}

// guardCheck: ownership obligation for the access `in` through address / map value `v`.
func (fr *Frame) guardCheck(st *State, in ssa.Instruction, v ssa.Value, write bool) {
	fc := fr.fc
	if len(fc.eng.guardDecls()) == 0 {
		return
	}
	var tag *guardTag
	switch x := v.(type) {
	case *ssa.FieldAddr:
		g, lock := fr.guardOfFieldAddr(x)
		if g == nil {
			return
		}
		if g.atomic {
			fc.oblige(st, "guard", fr.path, TFalse, fr.pos(in), fmt.Sprintf("field %s.%s may only be accessed through sync/atomic", g.typeName, g.field))
			return
		}
		tag = &guardTag{lock: lock, what: g.typeName + "." + g.field}
		// the loaded value of a deep-guarded field carries the guard
		if g.deep {
			if ld, ok := in.(*ssa.UnOp); ok {
				fr.guardTags[ld] = tag
			}
		}
	default:
		t, ok := fr.guardTags[v]
		if !ok {
			return
		}
		tag = t
		// values read out of a guarded map of maps stay guarded
		if lk, ok := in.(*ssa.Lookup); ok {
			if mt, ok := lk.X.Type().Underlying().(*types.Map); ok {
				if _, inner := mt.Elem().Underlying().(*types.Map); inner {
					fr.guardTags[lk] = tag
				}
			}
		}
	}
	held := Select(fc.heldSet(st), tag.lock)
	if !write {
		held = Or(held, Select(fc.rheldSet(st), tag.lock))
	}
	// initialisation: an object this function allocated itself is not shared yet
	if fc.next0 != nil {
		held = Or(held, Ge(PObj(tag.lock), fc.next0))
	}
	kind := "read"
	if write {
		kind = "write"
	}
	fc.oblige(st, "guard", fr.path, held, fr.pos(in), fmt.Sprintf("%s of %s holds its lock", kind, tag.what))
}

// propagateGuard: Extract of a guarded comma-ok lookup, Range over a guarded map.
func (fr *Frame) propagateGuard(from, to ssa.Value) {
	if t, ok := fr.guardTags[from]; ok {
		fr.guardTags[to] = t
	}
}

// noteEffects records blocking effects of a callee for `effects nonblocking` checks (see structural.go).
func (fr *Frame) noteEffects(site ssa.Instruction, sp *Block, short string, st *State) {}

// allocCheck: allocation size obligation for functions that declare `allocbound <expr>`: every allocation of
// `n` elements made by the function satisfies n <= <expr> (evaluated at the allocation).
func (fr *Frame) allocCheck(st *State, in ssa.Instruction, n *Term) {
	fc := fr.fc
	top := fr
	for top.parent != nil {
		top = top.parent
	}
	if top.spec == nil {
		return
	}
	for _, c := range top.spec.ClausesOf("allocbound") {
		if fr != top {
			// allocations of inlined callees are bounded by the top-level function's expression evaluated at entry
			ev := top.evalCtx(st, top.entry)
			ev.at = nil
			b := top.safeEvalInt(ev, c)
			fc.oblige(st, "alloc", fr.path, Le(n, b), fr.pos(in), "allocation size proportional to the input: "+c.Text)
			continue
		}
		ev := fr.evalCtx(st, fr.entry)
		ev.at = in.Block()
		b := fr.safeEvalInt(ev, c)
		fc.oblige(st, "alloc", fr.path, Le(n, b), fr.pos(in), "allocation size proportional to the input: "+c.Text)
	}
}
