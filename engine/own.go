package main

import (
	"golang.org/x/tools/go/ssa"
)

// guardCheck: ownership obligation for guarded fields (see own2.go once implemented).
func (fr *Frame) guardCheck(st *State, in ssa.Instruction, addr ssa.Value, write bool) {}

// noteEffects records blocking effects of a callee for `effects nonblocking` checks.
func (fr *Frame) noteEffects(site ssa.Instruction, sp *Block, short string, st *State) {}

// allocCheck: allocation size obligation for functions marked `effects alloc-proportional`.
func (fr *Frame) allocCheck(st *State, in ssa.Instruction, bytes *Term) {}
