package main

import (
	"fmt"
	"go/types"
	"strings"

	"golang.org/x/tools/go/ssa"
)

// ---------------------------------------------------------------------------------------------
// Ownership obligations (DESIGN §3.1):   //@ guarded (*T).field by <lockfield> [deep]
// Every load / store of the field through a *T - and, with `deep`, every operation on a map that was read
// out of it (and on the inner maps read out of those) - obliges that the goroutine holds x.<lockfield>:
// the write lock for modifications, the read or write lock for reads. Values obtained from a guarded map
// by a copying call (maps.Clone) are not guarded. The obligations are generated in every function the
// engine verifies, for every access it sees - this is a lockset argument phrased as proof obligations.
// ---------------------------------------------------------------------------------------------

type guardDecl struct {
	typeName string // canonical "pkg.T"
	field    string
	lock     string // name of the lock field in the same struct
	deep     bool
	atomic   bool // guarded ... by atomic: only sync/atomic access allowed
	file     string
	line     int
}

func (e *Engine) guardDecls() []guardDecl {
	if e.guards != nil {
		return e.guards
	}
	e.guards = []guardDecl{}
	for _, b := range e.db.Guarded {
		// guarded (*T).f by lockfield [deep]
		h := strings.TrimSpace(strings.TrimPrefix(b.Header, "guarded"))
		parts := strings.Fields(h)
		if len(parts) < 3 || parts[1] != "by" {
			continue
		}
		recv := parts[0]
		k := strings.LastIndex(recv, ").")
		if k < 0 {
			continue
		}
		tn := strings.TrimPrefix(recv[:k], "(")
		tn = strings.TrimPrefix(tn, "*")
		if !strings.Contains(tn, ".") && b.Pkg != "" {
			tn = b.Pkg + "." + tn
		}
		g := guardDecl{typeName: tn, field: recv[k+2:], lock: parts[2], file: b.File, line: b.Line}
		if g.lock == "atomic" {
			g.atomic = true
		}
		for _, p := range parts[3:] {
			if p == "deep" {
				g.deep = true
			}
		}
		e.guards = append(e.guards, g)
	}
	return e.guards
}

type guardTag struct {
	lock *Term  // address of the lock
	what string // description
}

// guardOf: if addr is &x.f for a guarded field f, return the lock address term.
func (fr *Frame) guardOfFieldAddr(fa *ssa.FieldAddr) (*guardDecl, *Term) {
	pt, ok := fa.X.Type().Underlying().(*types.Pointer)
	if !ok {
		return nil, nil
	}
	named, ok := types.Unalias(pt.Elem()).(*types.Named)
	if !ok {
		return nil, nil
	}
	st, ok := named.Underlying().(*types.Struct)
	if !ok {
		return nil, nil
	}
	tn := named.Obj().Pkg().Path() + "." + named.Obj().Name()
	fname := st.Field(fa.Field).Name()
	for i, g := range fr.fc.eng.guardDecls() {
		if g.typeName != tn || g.field != fname {
			continue
		}
		if g.atomic {
			return &fr.fc.eng.guards[i], nil
		}
		li := fieldIndex(st, g.lock)
		if li < 0 {
			unsup("%s:%d: guard lock field %s not found in %s", g.file, g.line, g.lock, tn)
		}
		base, ok2 := fr.env[fa.X]
		if !ok2 {
			return nil, nil
		}
		off := fr.fc.eng.ti.FieldOffset(st, li)
		lock := MkPtr(PObj(base.T), Add(PSlot(base.T), IntLit(off)))
		return &fr.fc.eng.guards[i], lock
	}
	return nil, nil
}

// guardCheck: ownership obligation for the access `in` through address / map value `v`.
func (fr *Frame) guardCheck(st *State, in ssa.Instruction, v ssa.Value, write bool) {
	fc := fr.fc
	if len(fc.eng.guardDecls()) == 0 && len(fc.eng.db.Published) == 0 {
		return
	}
	var tag *guardTag
	switch x := v.(type) {
	case *ssa.FieldAddr:
		if !write {
			fr.publishedCheck(st, in, x)
		}
		g, lock := fr.guardOfFieldAddr(x)
		if g == nil {
			return
		}
		if g.atomic {
			fc.oblige(st, "guard", fr.path, TFalse, fr.pos(in), fmt.Sprintf("field %s.%s may only be accessed through sync/atomic", g.typeName, g.field))
			return
		}
		tag = &guardTag{lock: lock, what: g.typeName + "." + g.field}
		// the loaded value of a deep-guarded field carries the guard
		if g.deep {
			if ld, ok := in.(*ssa.UnOp); ok {
				fr.guardTags[ld] = tag
			}
		}
	default:
		t, ok := fr.guardTags[v]
		if !ok {
			return
		}
		tag = t
		// values read out of a guarded map of maps stay guarded
		if lk, ok := in.(*ssa.Lookup); ok {
			if mt, ok := lk.X.Type().Underlying().(*types.Map); ok {
				if _, inner := mt.Elem().Underlying().(*types.Map); inner {
					fr.guardTags[lk] = tag
				}
			}
		}
	}
	held := Select(fc.heldSet(st), tag.lock)
	if !write {
		held = Or(held, Select(fc.rheldSet(st), tag.lock))
	}
	// initialisation: an object this function allocated itself is not shared yet
	if fc.next0 != nil {
		held = Or(held, Ge(PObj(tag.lock), fc.next0))
	}
	kind := "read"
	if write {
		kind = "write"
	}
	fc.oblige(st, "guard", fr.path, held, fr.pos(in), fmt.Sprintf("%s of %s holds its lock", kind, tag.what))
}

// propagateGuard: Extract of a guarded comma-ok lookup, Range over a guarded map.
func (fr *Frame) propagateGuard(from, to ssa.Value) {
	if t, ok := fr.guardTags[from]; ok {
		fr.guardTags[to] = t
	}
}

// noteEffects records blocking effects of a callee for `effects nonblocking` checks (see structural.go).
func (fr *Frame) noteEffects(site ssa.Instruction, sp *Block, short string, st *State) {}

// allocCheck: allocation size obligation for functions that declare `allocbound <expr>`: every allocation of
// `n` elements made by the function satisfies n <= <expr> (evaluated at the allocation).
func (fr *Frame) allocCheck(st *State, in ssa.Instruction, n *Term) {
	fc := fr.fc
	top := fr
	for top.parent != nil {
		top = top.parent
	}
	if top.spec == nil {
		return
	}
	for _, c := range top.spec.ClausesOf("allocbound") {
		if fr != top {
			// allocations of inlined callees are bounded by the top-level function's expression evaluated at entry
			ev := top.evalCtx(st, top.entry)
			ev.at = nil
			b := top.safeEvalInt(ev, c)
			fc.oblige(st, "alloc", fr.path, Le(n, b), fr.pos(in), "allocation size proportional to the input: "+c.Text)
			continue
		}
		ev := fr.evalCtx(st, fr.entry)
		ev.at = in.Block()
		b := fr.safeEvalInt(ev, c)
		fc.oblige(st, "alloc", fr.path, Le(n, b), fr.pos(in), "allocation size proportional to the input: "+c.Text)
	}
}

// ---------------------------------------------------------------------------------------------
// Interference at re-acquisition. The functions are read sequentially, which is sound for data guarded by a lock
// only while the lock is held: once a call has RELEASED a lock, other goroutines may change everything that lock
// guards before the call takes the lock again. So: `relsd` is the set of locks this call has released so far
// (empty at entry - up to its first acquisition a call cannot have looked at guarded data, so the entry state
// stands for the state at that acquisition); when Lock / RLock is applied to `&x.<lock>` and that lock is in
// `relsd`, every field declared `guarded (*T).f by <lock>` of x gets an arbitrary value (for a map, with `deep`,
// arbitrary contents; inner maps read out of it afterwards are arbitrary too). A decision taken under one critical
// section and acted upon in a later one (check-then-act across a release) therefore does not verify against a
// contract that speaks about the state at the acquisition. Not modelled: interference while a CALLEE waits for the
// lock (the callee's contract speaks for the callee), lock invariants (the havoc is unconstrained).
// ---------------------------------------------------------------------------------------------

func (fc *FnCtx) relsdInit() *Term {
	if g, ok := fc.initGhosts["relsd"]; ok {
		return g
	}
	g := fc.sc.Fresh("g0_relsd", ArrSort(SPtr, SBool))
	fc.initGhosts["relsd"] = g
	fc.sc.Assert(mk(SBool, fmt.Sprintf("(forall ((p!q Ptr)) (! (not (select %s p!q)) :pattern ((select %s p!q))))", g.S, g.S)))
	return g
}

func (fr *Frame) noteReleased(site ssa.Instruction, p *Term, st *State) {
	fc := fr.fc
	if len(fc.eng.guardDecls()) == 0 {
		return
	}
	r := fc.ghost(st, "relsd", ArrSort(SPtr, SBool))
	st.ghosts["relsd"] = fc.sc.Define("relsd", Store(r, p, TTrue))
	top := fr
	for top.parent != nil {
		top = top.parent
	}
	if top.spec != nil {
		for _, c := range top.spec.ClausesOf("lockinv") {
			ev := top.evalCtx(st, top.entry)
			ev.at = nil
			fc.oblige(st, "lockinv", fr.path, top.safeEvalBool(ev, c), fr.pos(site), "lock invariant holds when the lock is released: "+c.Text)
		}
	}
}

func (fr *Frame) interfere(site ssa.Instruction, p *Term, st *State) {
	fc := fr.fc
	if len(fc.eng.guardDecls()) == 0 {
		return
	}
	ci, ok := site.(ssa.CallInstruction)
	if !ok || len(ci.Common().Args) == 0 {
		return
	}
	fa, ok := ci.Common().Args[0].(*ssa.FieldAddr)
	if !ok {
		return
	}
	pt, ok := fa.X.Type().Underlying().(*types.Pointer)
	if !ok {
		return
	}
	named, ok := types.Unalias(pt.Elem()).(*types.Named)
	if !ok {
		return
	}
	stt, ok := named.Underlying().(*types.Struct)
	if !ok {
		return
	}
	tn := named.Obj().Pkg().Path() + "." + named.Obj().Name()
	lockName := stt.Field(fa.Field).Name()
	base, ok := fr.env[fa.X]
	if !ok {
		return
	}
	cond := Select(fc.ghost(st, "relsd", ArrSort(SPtr, SBool)), p)
	for _, g := range fc.eng.guardDecls() {
		if g.atomic || g.typeName != tn || g.lock != lockName {
			continue
		}
		fi := fieldIndex(stt, g.field)
		if fi < 0 {
			continue
		}
		ft := stt.Field(fi).Type()
		addr := MkPtr(PObj(base.T), Add(PSlot(base.T), IntLit(fc.eng.ti.FieldOffset(stt, fi))))
		fc.note("interference: fields guarded by " + tn + "." + lockName + " are arbitrary when the call re-acquires the lock after releasing it")
		// unconditional havoc on a copy, then choose per heap
		before := st.clone()
		if mt, isMap := ft.Underlying().(*types.Map); isMap && g.deep {
			m := fc.load(st, addr, ft).T
			fc.havocMap(st, m, mt)
			if inner, ok := mt.Elem().Underlying().(*types.Map); ok {
				_ = inner // inner maps are reached through the (now arbitrary) outer values
			}
		} else {
			nv := fc.freshVal("intf_"+g.field, ft)
			fc.assume(st, fc.typeFacts(st, nv, ft))
			fc.store(st, addr, ft, nv)
		}
		// lock invariant of the verified function (`lockinv <expr>`): what the guarded data satisfies whenever the lock
		// is free - assumed of the arbitrary state, obliged at every release (noteReleased)
		top := fr
		for top.parent != nil {
			top = top.parent
		}
		if top.spec != nil {
			for _, c := range top.spec.ClausesOf("lockinv") {
				ev := top.evalCtx(st, top.entry)
				ev.at = nil
				fc.assume(st, Implies(cond, top.safeEvalBool(ev, c)))
			}
		}
		for name, h := range st.heaps {
			old, had := before.heaps[name]
			if !had {
				old = fc.heap(before, name, fc.heapSortOf(name))
			}
			if old.S != h.S {
				st.heaps[name] = fc.sc.Define("H_"+name, Ite(cond, h, old))
			}
		}
	}
}

// ---------------------------------------------------------------------------------------------
// Publication through a channel:   //@ published (*T).field by <chanfield> except f1, f2
// The field is written by the one goroutine that then closes x.<chanfield>; everybody else may read it only after
// having received from that channel (the receive is the happens-before edge - no lock is involved). `recvd` is the
// ghost set of channels this call has received from. Every load of the field in a verified function other than the
// listed publishers obliges x.<chanfield> in recvd (objects the function allocated itself are exempt).
// ---------------------------------------------------------------------------------------------

func (fr *Frame) noteReceived(ch *Term, st *State) {
	fc := fr.fc
	if len(fc.eng.db.Published) == 0 || ch == nil || ch.Sort != SInt {
		return
	}
	r := fc.ghost(st, "recvd", ArrSort(SInt, SBool))
	st.ghosts["recvd"] = fc.sc.Define("recvd", Store(r, ch, TTrue))
}

func (fr *Frame) publishedCheck(st *State, in ssa.Instruction, fa *ssa.FieldAddr) {
	fc := fr.fc
	if len(fc.eng.db.Published) == 0 {
		return
	}
	pt, ok := fa.X.Type().Underlying().(*types.Pointer)
	if !ok {
		return
	}
	named, ok := types.Unalias(pt.Elem()).(*types.Named)
	if !ok {
		return
	}
	stt, ok := named.Underlying().(*types.Struct)
	if !ok {
		return
	}
	tn := named.Obj().Pkg().Path() + "." + named.Obj().Name()
	fname := stt.Field(fa.Field).Name()
	for _, b := range fc.eng.db.Published {
		// published (*T).f by ch [except a, b]
		h := strings.TrimSpace(strings.TrimPrefix(b.Header, "published"))
		parts := strings.Fields(strings.ReplaceAll(h, ",", " "))
		if len(parts) < 3 || parts[1] != "by" {
			continue
		}
		recv := parts[0]
		k := strings.LastIndex(recv, ").")
		if k < 0 {
			continue
		}
		dtn := strings.TrimPrefix(strings.TrimPrefix(recv[:k], "("), "*")
		if !strings.Contains(dtn, ".") && b.Pkg != "" {
			dtn = b.Pkg + "." + dtn
		}
		if dtn != tn || recv[k+2:] != fname {
			continue
		}
		exempt := false
		top := fr
		for top.parent != nil {
			top = top.parent
		}
		for i := 3; i < len(parts); i++ {
			if parts[i] != "except" && (parts[i] == stripTypeArgs(fr.fn.Name()) || parts[i] == stripTypeArgs(top.fn.Name())) {
				exempt = true
			}
		}
		if exempt {
			continue
		}
		ci := fieldIndex(stt, parts[2])
		if ci < 0 {
			unsup("%s:%d: published: channel field %s not found in %s", b.File, b.Line, parts[2], tn)
		}
		base, ok := fr.env[fa.X]
		if !ok {
			continue
		}
		chAddr := MkPtr(PObj(base.T), Add(PSlot(base.T), IntLit(fc.eng.ti.FieldOffset(stt, ci))))
		ch := fc.load(st, chAddr, stt.Field(ci).Type()).T
		okc := Select(fc.ghost(st, "recvd", ArrSort(SInt, SBool)), ch)
		if fc.next0 != nil {
			okc = Or(okc, Ge(PObj(base.T), fc.next0))
		}
		fc.oblige(st, "published", fr.path, okc, fr.pos(in), fmt.Sprintf("read of %s.%s happens after a receive from its %s channel (published through the channel, no lock)", tn, fname, parts[2]))
	}
}
