package main

import (
	"bytes"
	"fmt"
	"os"
	"os/exec"
	"path/filepath"
	"time"
)

// structuralCheck runs a Go-coded structural obligation (registered in structural.go).
func (e *Engine) structuralCheck(name string) *FuncResult {
	if f, ok := structuralChecks[name]; ok {
		return f(e)
	}
	for _, mkf := range structuralFactories {
		if f := mkf(name); f != nil {
			return f(e)
		}
	}
	return &FuncResult{Key: "structural:" + name, Err: "unknown structural check " + name}
}

var structuralChecks = map[string]func(e *Engine) *FuncResult{}

var structuralFactories []func(name string) func(e *Engine) *FuncResult

// tryReplay turns a solver model into a concrete input and runs the real code on it (per-family
// builders, see replay_*.go). Returns nil when no builder applies.
func (e *Engine) tryReplay(id string, o *Obligation, dir string) *ReplayResult {
	for _, b := range replayBuilders {
		if r := b(e, id, o, dir); r != nil {
			return r
		}
	}
	return nil
}

var replayBuilders []func(e *Engine, id string, o *Obligation, dir string) *ReplayResult

// runBounded runs a bounded stand-in (labelled bounded, never counted as proved).
func runBounded(verifDir, repo, id string, b BoundedSpec, tier string, replayDir string) map[string]any {
	t0 := time.Now()
	cmd := exec.Command("bash", "-c", b.Cmd)
	cmd.Dir = verifDir
	cmd.Env = append(os.Environ(), "VERIF_TIER="+tier, "VERIF_REPO="+repo, "VERIF_REPLAY_DIR="+replayDir)
	var buf bytes.Buffer
	cmd.Stdout = &buf
	cmd.Stderr = &buf
	err := cmd.Run()
	out := buf.String()
	res := map[string]any{"name": b.Name, "bound": b.Bound, "label": "bounded (not a proof, not counted as discharged)", "wall_s": time.Since(t0).Seconds()}
	if err != nil {
		p := filepath.Join(replayDir, "bounded_"+sanitize(b.Name)+".txt")
		os.WriteFile(p, []byte(out), 0o644)
		res["status"] = "fail"
		res["replay"] = p
	} else {
		res["status"] = "pass"
	}
	if len(out) > 2000 {
		out = out[len(out)-2000:]
	}
	res["tail"] = out
	_ = fmt.Sprint
	return res
}
