package main

import (
	"fmt"
	"go/token"
	"go/types"
	"sort"
	"strings"

	"golang.org/x/tools/go/ssa"
)

// ---------------------------------------------------------------------------------------------
// `effects nonblocking` (DESIGN §3.2): a function so marked may only reach operations that return
// promptly. The obligation is decided over the SSA of the real functions: static calls are followed,
// interface calls are resolved to every implementation in the repository, closures created in a
// function count as callable from it, `go` statements do not block the spawner. Blocking primitives:
// time.Sleep, dialing / reading / writing a network connection, waiting on a future / WaitGroup,
// a channel receive or send outside a select with default, a blocking select.
// ---------------------------------------------------------------------------------------------

var blockingExternal = map[string]string{
	"time.Sleep": "sleeps", "net.Dial": "dials", "net.DialTimeout": "dials", "(*net.Dialer).Dial": "dials", "(*net.Dialer).DialContext": "dials",
	"(*sync.WaitGroup).Wait": "waits for a WaitGroup", "(*sync.Cond).Wait": "waits on a condition",
	"io.ReadFull": "reads from a connection", "io.ReadAll": "reads from a connection", "io.Copy": "copies a stream",
}

var blockingIface = map[string]string{
	"(net.Conn).Read": "reads from a connection", "(net.Conn).Write": "writes to a connection", "(net.Listener).Accept": "accepts a connection",
	"(io.Reader).Read": "reads from a stream", "(io.Writer).Write": "writes to a stream",
}

type effectPath struct {
	chain []string
	why   string
	pos   token.Position
}

func (e *Engine) blockingPath(fn *ssa.Function, seen map[*ssa.Function]bool, depth int) *effectPath {
	ps := e.blockingPaths(fn, seen, depth)
	if len(ps) == 0 {
		return nil
	}
	return ps[0]
}

// blockingPaths collects every blocking site reachable from fn (one path per site).
func (e *Engine) blockingPaths(fn *ssa.Function, seen map[*ssa.Function]bool, depth int) []*effectPath {
	var out []*effectPath
	if fn == nil || seen[fn] || depth > 40 {
		return nil
	}
	seen[fn] = true
	name := fn.String()
	// logging / metrics are treated as prompt (listed assumption)
	if fn.Pkg != nil && (strings.HasPrefix(fn.Pkg.Pkg.Path(), e.modPath+"/pkg/log") || strings.HasPrefix(fn.Pkg.Pkg.Path(), e.modPath+"/pkg/metrics") || strings.HasPrefix(fn.Pkg.Pkg.Path(), e.modPath+"/internal/metrics")) {
		return nil
	}
	if sp := e.db.Funcs[funcKey(fn)]; sp != nil {
		if sp.Has("effects", "nonblocking-assumed") {
			return nil
		}
		if sp.Has("effects", "blocking") {
			return []*effectPath{{chain: []string{shortName(name)}, why: "declared `effects blocking`", pos: e.fset.Position(fn.Pos())}}
		}
	}
	for _, b := range fn.Blocks {
		for _, in := range b.Instrs {
			pos := e.fset.Position(in.Pos())
			switch x := in.(type) {
			case *ssa.UnOp:
				if x.Op == token.ARROW {
					out = append(out, &effectPath{chain: []string{shortName(name)}, why: "channel receive", pos: pos})
					continue
				}
			case *ssa.Send:
				out = append(out, &effectPath{chain: []string{shortName(name)}, why: "channel send", pos: pos})
					continue
			case *ssa.Select:
				if x.Blocking {
					out = append(out, &effectPath{chain: []string{shortName(name)}, why: "blocking select", pos: pos})
					continue
				}
			case *ssa.Go:
				continue // the spawner does not wait
			case ssa.CallInstruction:
				c := x.Common()
				var targets []*ssa.Function
				if c.IsInvoke() {
					key := "(" + types.TypeString(c.Value.Type(), nil) + ")." + c.Method.Name()
					if why, ok := blockingIface[key]; ok {
						out = append(out, &effectPath{chain: []string{shortName(name), key}, why: why, pos: pos})
					continue
					}
					targets = e.implementations(c)
				} else if f := c.StaticCallee(); f != nil {
					k := funcKey(f)
					if why, ok := blockingExternal[k]; ok {
						out = append(out, &effectPath{chain: []string{shortName(name), k}, why: why, pos: pos})
					continue
					}
					targets = []*ssa.Function{f}
				} else {
					// call through a function value: closures created in this function are candidates
					for _, an := range fn.AnonFuncs {
						targets = append(targets, an)
					}
				}
				// closures passed as arguments may be called by the callee
				for _, a := range c.Args {
					if mc, ok := a.(*ssa.MakeClosure); ok {
						targets = append(targets, mc.Fn.(*ssa.Function))
					}
				}
				for _, t := range targets {
					if len(t.Blocks) == 0 {
						continue
					}
					for _, p := range e.blockingPaths(t, seen, depth+1) {
						p.chain = append([]string{shortName(name)}, p.chain...)
						out = append(out, p)
					}
				}
			}
		}
	}
	return out
}

// implementations: every method in the repository that an interface call can dispatch to.
func (e *Engine) implementations(c *ssa.CallCommon) []*ssa.Function {
	iface, ok := c.Value.Type().Underlying().(*types.Interface)
	if !ok {
		return nil
	}
	var out []*ssa.Function
	seen := map[*ssa.Function]bool{}
	for _, sp := range e.spkgs {
		if sp == nil {
			continue
		}
		for _, m := range sp.Members {
			tn, ok := m.(*ssa.Type)
			if !ok {
				continue
			}
			for _, t := range []types.Type{tn.Type(), types.NewPointer(tn.Type())} {
				if _, isI := t.Underlying().(*types.Interface); isI {
					continue
				}
				if !types.Implements(t, iface) {
					continue
				}
				if f := e.prog.LookupMethod(t, c.Method.Pkg(), c.Method.Name()); f != nil && !seen[f] {
					seen[f] = true
					out = append(out, f)
				}
			}
		}
	}
	sort.Slice(out, func(i, j int) bool { return out[i].String() < out[j].String() })
	return out
}

func init() {
	structuralFactories = append(structuralFactories, func(name string) func(e *Engine) *FuncResult {
		if !strings.HasPrefix(name, "nonblocking:") {
			return nil
		}
		pat := strings.TrimPrefix(name, "nonblocking:")
		return func(e *Engine) *FuncResult {
			res := &FuncResult{Key: "effects:" + pat, HasContract: true}
			ks := e.matchFuncs(pat)
			if len(ks) != 1 {
				res.Err = fmt.Sprintf("effects check: %q matches %d functions", pat, len(ks))
				return res
			}
			fn := e.funcs[ks[0]]
			paths := e.blockingPaths(fn, map[*ssa.Function]bool{}, 0)
			o := &Obligation{Name: shortName(ks[0]) + "/effect:nonblocking", Kind: "effect", Func: shortName(ks[0]), Pos: e.fset.Position(fn.Pos()),
				Desc: "function marked nonblocking reaches no blocking operation (over the call graph of the real code)", Solver: "call-graph", QF: true, Status: "proved"}
			res.Obligations = []*Obligation{o}
			for _, p := range paths {
				// one named obligation per blocking site: <function containing the site>:<what blocks>
				last := p.chain[len(p.chain)-1]
				site := last
				if len(p.chain) >= 2 && (strings.Contains(last, ".") && !strings.HasPrefix(last, "(*") || strings.HasPrefix(last, "(")) {
					site = p.chain[len(p.chain)-2] + ">" + last
				}
				ob := &Obligation{Name: shortName(ks[0]) + "/effect:nonblocking@" + site + ":" + strings.ReplaceAll(p.why, " ", "-"), Kind: "effect", Func: shortName(ks[0]), Pos: p.pos,
					Desc: "blocking operation reachable from a function marked nonblocking: " + p.why, Solver: "call-graph", QF: true, Status: "failed"}
				ob.Output = fmt.Sprintf("blocking operation reachable: %s at %s:%d\npath: %s\n", p.why, p.pos.Filename, p.pos.Line, strings.Join(p.chain, " -> "))
				ob.Model = ob.Output
				res.Obligations = append(res.Obligations, ob)
			}
			return res
		}
	})
}
