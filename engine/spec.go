package main

import (
	"fmt"
	"os"
	"path/filepath"
	"regexp"
	"strconv"
	"strings"
	"unicode"
)

// ---------------------------------------------------------------------------------------------
// Contract files. Contracts are //@ comment blocks in <pkg>/zz_contracts_verif.go (build tag verif)
// in /repo, and in /verif/stdlib_contracts/*.spec for assumed contracts of dependencies.
//
//   //@ pure size(q *RingQueue) int64 = <expr>
//   //@ func (*RingQueue).Push
//   //@   requires <expr>
//   //@   ensures  <expr>
//   //@   modifies <loc>, <loc>
//   //@ loop (*RingQueue).Push#1
//   //@   invariant <expr>
//   //@   decreases <expr>
//   //@ assume func sync/atomic.AddInt64
//   //@ lemma name: <expr>
//   //@ guarded (*T).f by <guard>
// ---------------------------------------------------------------------------------------------

type Clause struct {
	Kind string // requires ensures modifies invariant decreases check effects thread ...
	Text string
	Expr Expr   // parsed (nil for check/effects/thread)
	Locs []Expr // for modifies
	File string
	Line int
}

type Block struct {
	Kind    string // func | assume | loop | pure | lemma | guarded | ghost | funcspec | global
	Name    string // function key, or loop key F#k, or pure name
	Header  string // full header text
	Clauses []*Clause
	File    string
	Line    int
	Pkg     string // package path the block was found in ("" for stdlib contract files)

	// pure functions
	PureParams []PureParam
	PureRet    string
	PureBody   Expr
	ParamNames []string // optional explicit parameter names (assume func f(a, b))
}

type PureParam struct {
	Name string
	Type string
}

type SpecDB struct {
	Funcs    map[string]*Block // key: canonical function name
	Loops    map[string]*Block // key: canonical function name + "#k"
	Pures    map[string]*Block // key: pkgpath + "." + name, and bare name for stdlib ones
	Lemmas   []*Block
	Guarded  []*Block
	Published []*Block
	Globals  []*Block
	All      []*Block
	UsedKeys map[string]bool
	Ghosts   map[string][]string // ghost counter maps: name -> key types
}

func NewSpecDB() *SpecDB {
	return &SpecDB{Funcs: map[string]*Block{}, Loops: map[string]*Block{}, Pures: map[string]*Block{}, UsedKeys: map[string]bool{}, Ghosts: map[string][]string{}}
}

var clauseKW = map[string]bool{"requires": true, "ensures": true, "modifies": true, "invariant": true,
	"decreases": true, "increases": true, "callspec": true, "ghostvar": true, "check": true, "effects": true, "thread": true, "acquires": true, "releases": true,
	"assumes": true, "opaque": true, "panics": true, "funcspec": true, "inline": true, "havoc": true, "trusted": true, "asserts": true, "unroll": true, "nilreceiver": true, "ghostinc": true, "allocbound": true, "lockinv": true, "bodycheck": true, "noreturn": true, "bodyensures": true}
var blockKW = map[string]bool{"abstract": true, "pure": true, "func": true, "loop": true, "assume": true, "lemma": true,
	"guarded": true, "ghost": true, "global": true, "published": true}

var specLineRe = regexp.MustCompile(`^\s*//\s?@(.*)$`)

// LoadSpecFile parses one file; pkgPath is the Go package path for repo contract files.
func (db *SpecDB) LoadSpecFile(path, pkgPath string) error {
	data, err := os.ReadFile(path)
	if err != nil {
		return err
	}
	var cur *Block
	var curClause *Clause
	lines := strings.Split(string(data), "\n")
	isSpec := strings.HasSuffix(path, ".spec")
	for i, raw := range lines {
		var body string
		if isSpec {
			if strings.HasPrefix(strings.TrimSpace(raw), "#") {
				continue
			}
			body = raw
		} else {
			m := specLineRe.FindStringSubmatch(raw)
			if m == nil {
				continue
			}
			body = m[1]
		}
		// strip trailing comment "// ..."
		if k := strings.Index(body, " //"); k >= 0 {
			body = body[:k]
		}
		trimmed := strings.TrimSpace(body)
		if trimmed == "" {
			continue
		}
		indent := len(body) - len(strings.TrimLeft(body, " \t"))
		first := trimmed
		if k := strings.IndexAny(trimmed, " \t:("); k >= 0 {
			first = trimmed[:k]
		}
		if blockKW[first] && indent <= 1 {
			cur = &Block{Kind: first, Header: trimmed, File: path, Line: i + 1, Pkg: pkgPath}
			curClause = nil
			if err := db.parseHeader(cur, trimmed); err != nil {
				return fmt.Errorf("%s:%d: %v", path, i+1, err)
			}
			db.All = append(db.All, cur)
			continue
		}
		if cur == nil {
			return fmt.Errorf("%s:%d: clause outside a block: %s", path, i+1, trimmed)
		}
		if clauseKW[first] {
			curClause = &Clause{Kind: first, Text: strings.TrimSpace(trimmed[len(first):]), File: path, Line: i + 1}
			cur.Clauses = append(cur.Clauses, curClause)
			continue
		}
		// continuation
		if cur.Kind == "pure" && curClause == nil {
			cur.Header += " " + trimmed
			continue
		}
		if cur.Kind == "lemma" && curClause == nil {
			cur.Header += " " + trimmed
			continue
		}
		if curClause == nil {
			return fmt.Errorf("%s:%d: continuation without clause: %s", path, i+1, trimmed)
		}
		curClause.Text += " " + trimmed
	}
	return nil
}

func (db *SpecDB) parseHeader(b *Block, h string) error {
	switch b.Kind {
	case "func":
		name := strings.TrimSpace(h[len("func"):])
		b.ParamNames = headerParams(name)
		b.Name = canonFuncKey(name, b.Pkg)
		if _, dup := db.Funcs[b.Name]; dup {
			return fmt.Errorf("duplicate contract for %s", b.Name)
		}
		db.Funcs[b.Name] = b
	case "assume":
		rest := strings.TrimSpace(h[len("assume"):])
		if !strings.HasPrefix(rest, "func") {
			return fmt.Errorf("expected 'assume func'")
		}
		name := strings.TrimSpace(rest[len("func"):])
		b.ParamNames = headerParams(name)
		b.Name = canonFuncKey(name, b.Pkg)
		if _, dup := db.Funcs[b.Name]; dup {
			return fmt.Errorf("duplicate contract for %s", b.Name)
		}
		db.Funcs[b.Name] = b
	case "loop":
		name := strings.TrimSpace(h[len("loop"):])
		k := strings.LastIndex(name, "#")
		if k < 0 {
			return fmt.Errorf("loop key needs #ordinal")
		}
		b.Name = canonFuncKey(name[:k], b.Pkg) + name[k:]
		db.Loops[b.Name] = b
	case "abstract":
		// abstract name(p T, ...) R : uninterpreted function
		m := abstractHeaderRe.FindStringSubmatch(h)
		if m == nil {
			return fmt.Errorf("bad abstract header: %s", h)
		}
		b.Name = m[1]
		for _, p := range splitTop(m[2], ',') {
			p = strings.TrimSpace(p)
			if p == "" {
				continue
			}
			k := strings.IndexAny(p, " \t")
			if k < 0 {
				return fmt.Errorf("abstract param needs a type: %s", p)
			}
			b.PureParams = append(b.PureParams, PureParam{Name: p[:k], Type: strings.TrimSpace(p[k:])})
		}
		b.PureRet = strings.TrimSpace(m[3])
		key := b.Name
		if b.Pkg != "" {
			key = b.Pkg + "." + b.Name
		}
		db.Pures[key] = b
	case "pure", "lemma":
		// finished later (header may continue on following lines)
	case "guarded":
		db.Guarded = append(db.Guarded, b)
	case "published":
		db.Published = append(db.Published, b)
	case "global":
		db.Globals = append(db.Globals, b)
	case "ghost":
		// ghost name(keytype[, keytype]) : a ghost counter map
		m := ghostHeaderRe.FindStringSubmatch(h)
		if m == nil {
			return fmt.Errorf("bad ghost header: %s", h)
		}
		var keys []string
		for _, k := range splitTop(m[2], ',') {
			keys = append(keys, strings.TrimSpace(k))
		}
		db.Ghosts[m[1]] = keys
	}
	return nil
}

var ghostHeaderRe = regexp.MustCompile(`^ghost\s+([A-Za-z_][A-Za-z0-9_]*)\s*\(([^)]*)\)\s*$`)

// canonFuncKey turns "(*RingQueue).Push" (+pkg) into "(*pkg.RingQueue).Push", "New" into "pkg.New".
// Names that already contain a package path (contain '/' or a '.' before the type) are kept.
func canonFuncKey(name, pkg string) string {
	name = strings.TrimSpace(name)
	// drop parameter list if present
	if strings.HasPrefix(name, "(") {
		// receiver form: (*T).M or (T).M
		end := strings.Index(name, ")")
		recv := name[1:end]
		rest := name[end+1:]
		if k := strings.Index(rest, "("); k >= 0 {
			rest = rest[:k]
		}
		star := ""
		if strings.HasPrefix(recv, "*") {
			star = "*"
			recv = recv[1:]
		}
		if !strings.Contains(recv, ".") && pkg != "" {
			recv = pkg + "." + recv
		}
		return "(" + star + recv + ")" + strings.TrimSpace(rest)
	}
	if k := strings.Index(name, "("); k >= 0 {
		name = name[:k]
	}
	name = strings.TrimSpace(name)
	if !strings.Contains(name, ".") && pkg != "" {
		// could be F$1 closure names too
		return pkg + "." + name
	}
	return name
}

// headerParams extracts the optional trailing "(a, b, c)" parameter name list of a func header.
func headerParams(name string) []string {
	name = strings.TrimSpace(name)
	if !strings.HasSuffix(name, ")") {
		return nil
	}
	k := strings.LastIndex(name, "(")
	if k <= 0 {
		return nil
	}
	// "(*T).M" has its only '(' at 0; a parameter list starts later
	inner := strings.TrimSpace(name[k+1 : len(name)-1])
	if inner == "" {
		return []string{}
	}
	var out []string
	for _, p := range strings.Split(inner, ",") {
		out = append(out, strings.TrimSpace(p))
	}
	return out
}

var abstractHeaderRe = regexp.MustCompile(`^abstract\s+([A-Za-z_][A-Za-z0-9_]*)\s*\(([^)]*)\)\s*(.*)$`)

var pureHeaderRe = regexp.MustCompile(`^pure\s+([A-Za-z_][A-Za-z0-9_]*)\s*\(([^)]*)\)\s*([^=]*?)\s*=\s*(.*)$`)

// Finish parses all expressions (after all files are loaded).
func (db *SpecDB) Finish() error {
	for _, b := range db.All {
		switch b.Kind {
		case "pure":
			m := pureHeaderRe.FindStringSubmatch(b.Header)
			if m == nil {
				return fmt.Errorf("%s:%d: bad pure header: %s", b.File, b.Line, b.Header)
			}
			b.Name = m[1]
			for _, p := range splitTop(m[2], ',') {
				p = strings.TrimSpace(p)
				if p == "" {
					continue
				}
				k := strings.IndexAny(p, " \t")
				if k < 0 {
					return fmt.Errorf("%s:%d: pure param needs a type: %s", b.File, b.Line, p)
				}
				b.PureParams = append(b.PureParams, PureParam{Name: p[:k], Type: strings.TrimSpace(p[k:])})
			}
			b.PureRet = strings.TrimSpace(m[3])
			e, err := ParseExpr(m[4])
			if err != nil {
				return fmt.Errorf("%s:%d: %v", b.File, b.Line, err)
			}
			b.PureBody = e
			key := b.Name
			if b.Pkg != "" {
				key = b.Pkg + "." + b.Name
			}
			if _, dup := db.Pures[key]; dup {
				return fmt.Errorf("%s:%d: duplicate pure %s", b.File, b.Line, key)
			}
			db.Pures[key] = b
		case "lemma":
			rest := strings.TrimSpace(b.Header[len("lemma"):])
			k := strings.Index(rest, ":")
			if k < 0 {
				return fmt.Errorf("%s:%d: lemma needs 'name: formula'", b.File, b.Line)
			}
			b.Name = strings.TrimSpace(rest[:k])
			e, err := ParseExpr(rest[k+1:])
			if err != nil {
				return fmt.Errorf("%s:%d: %v", b.File, b.Line, err)
			}
			b.PureBody = e
			db.Lemmas = append(db.Lemmas, b)
		}
		for _, c := range b.Clauses {
			switch c.Kind {
			case "requires", "ensures", "invariant", "decreases", "increases", "assumes", "panics", "asserts", "allocbound", "lockinv", "bodyensures":
				e, err := ParseExpr(c.Text)
				if err != nil {
					return fmt.Errorf("%s:%d: %v (in %q)", c.File, c.Line, err, c.Text)
				}
				c.Expr = e
			case "modifies", "havoc":
				for _, part := range splitTop(c.Text, ',') {
					part = strings.TrimSpace(part)
					if part == "" || part == "nothing" {
						continue
					}
					e, err := ParseExpr(part)
					if err != nil {
						return fmt.Errorf("%s:%d: %v (in %q)", c.File, c.Line, err, part)
					}
					c.Locs = append(c.Locs, e)
				}
			}
		}
	}
	return nil
}

func splitTop(s string, sep byte) []string {
	var out []string
	depth := 0
	start := 0
	for i := 0; i < len(s); i++ {
		switch s[i] {
		case '(', '[':
			depth++
		case ')', ']':
			depth--
		default:
			if s[i] == sep && depth == 0 {
				out = append(out, s[start:i])
				start = i + 1
			}
		}
	}
	out = append(out, s[start:])
	return out
}

func (b *Block) ClausesOf(kind string) []*Clause {
	var out []*Clause
	if b == nil {
		return nil
	}
	for _, c := range b.Clauses {
		if c.Kind == kind {
			out = append(out, c)
		}
	}
	return out
}

func (b *Block) Has(kind, text string) bool {
	for _, c := range b.ClausesOf(kind) {
		if strings.Contains(c.Text, text) {
			return true
		}
	}
	return false
}

// LoadRepoSpecs finds zz_contracts_verif.go files under root.
func (db *SpecDB) LoadRepoSpecs(root, modPath string) ([]string, error) {
	var files []string
	err := filepath.Walk(root, func(p string, info os.FileInfo, err error) error {
		if err != nil {
			return err
		}
		if info.IsDir() {
			if info.Name() == ".git" {
				return filepath.SkipDir
			}
			return nil
		}
		if strings.HasSuffix(info.Name(), "_verif.go") && strings.HasPrefix(info.Name(), "zz_contracts") {
			rel, _ := filepath.Rel(root, filepath.Dir(p))
			pkg := modPath
			if rel != "." {
				pkg = modPath + "/" + filepath.ToSlash(rel)
			}
			files = append(files, p)
			return db.LoadSpecFile(p, pkg)
		}
		return nil
	})
	return files, err
}

// ---------------------------------------------------------------------------------------------
// Expression AST and parser
// ---------------------------------------------------------------------------------------------

type Expr interface{ exprNode() }

type (
	EIdent  struct{ Name string }
	EInt    struct{ V string }
	EStr    struct{ V string }
	EBool   struct{ V bool }
	ENil    struct{}
	EUnary  struct{ Op string; X Expr }
	EBinary struct{ Op string; L, R Expr }
	ECond   struct{ C, A, B Expr }
	ESel    struct{ X Expr; Name string }
	EIndex  struct{ X, I Expr }
	EStar   struct{ X Expr } // x[*] in modifies
	ECall   struct{ Fn string; Args []Expr }
	EQuant  struct {
		Forall bool
		Vars   []PureParam
		Body   Expr
	}
	EOld struct{ X Expr }
)

func (EIdent) exprNode()  {}
func (EInt) exprNode()    {}
func (EStr) exprNode()    {}
func (EBool) exprNode()   {}
func (ENil) exprNode()    {}
func (EUnary) exprNode()  {}
func (EBinary) exprNode() {}
func (ECond) exprNode()   {}
func (ESel) exprNode()    {}
func (EIndex) exprNode()  {}
func (EStar) exprNode()   {}
func (ECall) exprNode()   {}
func (EQuant) exprNode()  {}
func (EOld) exprNode()    {}

type tok struct {
	kind string // id int str op eof
	s    string
}

type lexer struct {
	toks []tok
	pos  int
}

func lex(s string) ([]tok, error) {
	var toks []tok
	i := 0
	for i < len(s) {
		c := s[i]
		switch {
		case c == ' ' || c == '\t' || c == '\n':
			i++
		case unicode.IsLetter(rune(c)) || c == '_':
			j := i
			for j < len(s) && (unicode.IsLetter(rune(s[j])) || unicode.IsDigit(rune(s[j])) || s[j] == '_') {
				j++
			}
			toks = append(toks, tok{"id", s[i:j]})
			i = j
		case unicode.IsDigit(rune(c)):
			j := i
			for j < len(s) && (unicode.IsDigit(rune(s[j])) || s[j] == 'x' || (s[j] >= 'a' && s[j] <= 'f') || (s[j] >= 'A' && s[j] <= 'F') || s[j] == '_') {
				j++
			}
			toks = append(toks, tok{"int", s[i:j]})
			i = j
		case c == '"':
			j := i + 1
			for j < len(s) && s[j] != '"' {
				if s[j] == '\\' {
					j++
				}
				j++
			}
			if j >= len(s) {
				return nil, fmt.Errorf("unterminated string")
			}
			v, err := strconv.Unquote(s[i : j+1])
			if err != nil {
				return nil, err
			}
			toks = append(toks, tok{"str", v})
			i = j + 1
		default:
			ops := []string{"<==>", "==>", "::", "&&", "||", "==", "!=", "<=", ">=", "<<", ">>", "[*]"}
			matched := false
			for _, op := range ops {
				if strings.HasPrefix(s[i:], op) {
					toks = append(toks, tok{"op", op})
					i += len(op)
					matched = true
					break
				}
			}
			if matched {
				continue
			}
			if strings.ContainsRune("+-*/%<>!()[].,?:&|", rune(c)) {
				toks = append(toks, tok{"op", string(c)})
				i++
				continue
			}
			return nil, fmt.Errorf("unexpected character %q", c)
		}
	}
	toks = append(toks, tok{"eof", ""})
	return toks, nil
}

func ParseExpr(s string) (Expr, error) {
	toks, err := lex(s)
	if err != nil {
		return nil, err
	}
	p := &lexer{toks: toks}
	var e Expr
	func() {
		defer func() {
			if r := recover(); r != nil {
				if pe, ok := r.(parseErr); ok {
					err = fmt.Errorf("%s", string(pe))
					return
				}
				panic(r)
			}
		}()
		e = p.parseExpr(0)
		if p.peek().kind != "eof" {
			panic(parseErr("unexpected token " + p.peek().s))
		}
	}()
	return e, err
}

type parseErr string

func (p *lexer) peek() tok { return p.toks[p.pos] }
func (p *lexer) next() tok  { t := p.toks[p.pos]; p.pos++; return t }
func (p *lexer) isOp(s string) bool {
	t := p.peek()
	return t.kind == "op" && t.s == s
}
func (p *lexer) expectOp(s string) {
	if !p.isOp(s) {
		panic(parseErr(fmt.Sprintf("expected %q, got %q", s, p.peek().s)))
	}
	p.pos++
}

// precedence (low to high): <==> ; ==> ; ?: ; || ; && ; comparisons, in ; + - | ; * / % << >> &
func binPrec(t tok) int {
	if t.kind == "id" && t.s == "in" {
		return 6
	}
	if t.kind != "op" {
		return -1
	}
	switch t.s {
	case "<==>":
		return 1
	case "==>":
		return 2
	case "?":
		return 3
	case "||":
		return 4
	case "&&":
		return 5
	case "==", "!=", "<", "<=", ">", ">=":
		return 6
	case "+", "-", "|":
		return 7
	case "*", "/", "%", "<<", ">>", "&":
		return 8
	}
	return -1
}

func (p *lexer) parseExpr(minPrec int) Expr {
	lhs := p.parseUnary()
	for {
		t := p.peek()
		prec := binPrec(t)
		if prec < 0 || prec < minPrec {
			return lhs
		}
		p.next()
		switch t.s {
		case "?":
			a := p.parseExpr(0)
			p.expectOp(":")
			b := p.parseExpr(prec)
			lhs = ECond{lhs, a, b}
		case "==>":
			// right associative
			rhs := p.parseExpr(prec)
			lhs = EBinary{"==>", lhs, rhs}
		default:
			rhs := p.parseExpr(prec + 1)
			lhs = EBinary{t.s, lhs, rhs}
		}
	}
}

func (p *lexer) parseUnary() Expr {
	t := p.peek()
	if t.kind == "op" && (t.s == "!" || t.s == "-" || t.s == "*" || t.s == "&") {
		p.next()
		x := p.parseUnary()
		return EUnary{t.s, x}
	}
	if t.kind == "id" && (t.s == "forall" || t.s == "exists") {
		p.next()
		var vars []PureParam
		for {
			n := p.next()
			if n.kind != "id" {
				panic(parseErr("expected bound variable name"))
			}
			// type: tokens until ',' or '::'
			var ty strings.Builder
			for !(p.isOp(",") || p.isOp("::")) {
				if p.peek().kind == "eof" {
					panic(parseErr("expected :: in quantifier"))
				}
				ty.WriteString(p.next().s)
			}
			vars = append(vars, PureParam{Name: n.s, Type: ty.String()})
			if p.isOp(",") {
				p.next()
				continue
			}
			p.expectOp("::")
			break
		}
		// bound vars with empty type inherit the next declared type (forall a, b T ::)
		for i := len(vars) - 2; i >= 0; i-- {
			if vars[i].Type == "" {
				vars[i].Type = vars[i+1].Type
			}
		}
		body := p.parseExpr(0)
		return EQuant{Forall: t.s == "forall", Vars: vars, Body: body}
	}
	return p.parsePostfix(p.parsePrimary())
}

func (p *lexer) parsePrimary() Expr {
	t := p.next()
	switch t.kind {
	case "int":
		return EInt{strings.ReplaceAll(t.s, "_", "")}
	case "str":
		return EStr{t.s}
	case "id":
		switch t.s {
		case "true":
			return EBool{true}
		case "false":
			return EBool{false}
		case "nil":
			return ENil{}
		case "old":
			p.expectOp("(")
			x := p.parseExpr(0)
			p.expectOp(")")
			return EOld{x}
		}
		if p.isOp("(") {
			p.next()
			var args []Expr
			if !p.isOp(")") {
				for {
					args = append(args, p.parseExpr(0))
					if p.isOp(",") {
						p.next()
						continue
					}
					break
				}
			}
			p.expectOp(")")
			return ECall{t.s, args}
		}
		return EIdent{t.s}
	case "op":
		if t.s == "(" {
			x := p.parseExpr(0)
			p.expectOp(")")
			return x
		}
	}
	panic(parseErr("unexpected token " + t.s))
}

func (p *lexer) parsePostfix(x Expr) Expr {
	for {
		switch {
		case p.isOp("."):
			p.next()
			n := p.next()
			if n.kind != "id" && n.kind != "int" {
				panic(parseErr("expected field name after ."))
			}
			// pkg.Func(...) style call: treat "a.b(" as a call to "a.b"
			if id, ok := x.(EIdent); ok && p.isOp("(") && n.kind == "id" {
				p.next()
				var args []Expr
				if !p.isOp(")") {
					for {
						args = append(args, p.parseExpr(0))
						if p.isOp(",") {
							p.next()
							continue
						}
						break
					}
				}
				p.expectOp(")")
				x = ECall{id.Name + "." + n.s, args}
				continue
			}
			x = ESel{x, n.s}
		case p.isOp("[*]"):
			p.next()
			x = EStar{x}
		case p.isOp("["):
			p.next()
			i := p.parseExpr(0)
			p.expectOp("]")
			x = EIndex{x, i}
		default:
			return x
		}
	}
}

func exprString(e Expr) string {
	switch e := e.(type) {
	case EIdent:
		return e.Name
	case EInt:
		return e.V
	case EStr:
		return strconv.Quote(e.V)
	case EBool:
		return fmt.Sprint(e.V)
	case ENil:
		return "nil"
	case EUnary:
		return e.Op + exprString(e.X)
	case EBinary:
		return "(" + exprString(e.L) + " " + e.Op + " " + exprString(e.R) + ")"
	case ECond:
		return "(" + exprString(e.C) + " ? " + exprString(e.A) + " : " + exprString(e.B) + ")"
	case ESel:
		return exprString(e.X) + "." + e.Name
	case EIndex:
		return exprString(e.X) + "[" + exprString(e.I) + "]"
	case EStar:
		return exprString(e.X) + "[*]"
	case ECall:
		var as []string
		for _, a := range e.Args {
			as = append(as, exprString(a))
		}
		return e.Fn + "(" + strings.Join(as, ", ") + ")"
	case EQuant:
		q := "exists"
		if e.Forall {
			q = "forall"
		}
		var vs []string
		for _, v := range e.Vars {
			vs = append(vs, v.Name+" "+v.Type)
		}
		return q + " " + strings.Join(vs, ", ") + " :: " + exprString(e.Body)
	case EOld:
		return "old(" + exprString(e.X) + ")"
	}
	return "?"
}
