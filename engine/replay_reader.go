package main

import (
	"context"
	"encoding/json"
	"fmt"
	"go/types"
	"os"
	"os/exec"
	"path/filepath"
	"regexp"
	"strconv"
	"strings"
)

// ---------------------------------------------------------------------------------------------
// Model replay for methods of *messages.Reader (property C13): when the counterexample-mode solver
// answers `sat` for a safety or representation-invariant obligation of such a method, the entry state
// of the model - buffer contents, length, capacity, position, error flag, scalar arguments - is read
// back from the solver, turned into a Go test that builds that very Reader and calls the REAL method,
// and the test is run against the tree under check (injected with `go test -overlay`). A panic, or a
// broken representation invariant afterwards, reproduces the violation with a concrete input.
//
// This is the one family of functions with a model-to-input builder; everything else reports
// `no-failing-input-found` unless a recorded history replay exists (known_findings.jsonl).
// ---------------------------------------------------------------------------------------------

func init() { replayBuilders = append(replayBuilders, replayReaderModel) }

const replayMaxBytes = 1 << 16

func replayReaderModel(e *Engine, id string, o *Obligation, dir string) *ReplayResult {
	fc := o.Ctx
	if fc == nil || fc.topFn == nil || fc.topFn.Signature.Recv() == nil || len(fc.topParams) == 0 {
		return nil
	}
	if o.Kind != "bounds" && o.Kind != "nil" && o.Kind != "post" && o.Kind != "pre" && o.Kind != "panic" && o.Kind != "assert-type" {
		return nil
	}
	pt, ok := fc.topFn.Signature.Recv().Type().Underlying().(*types.Pointer)
	if !ok || !strings.HasSuffix(types.TypeString(pt.Elem(), nil), "internal/messages.Reader") {
		return nil
	}
	st, ok := pt.Elem().Underlying().(*types.Struct)
	if !ok {
		return nil
	}
	// scalar (integer / bool) arguments only
	sig := fc.topFn.Signature
	for i := 0; i < sig.Params().Len(); i++ {
		b, ok := sig.Params().At(i).Type().Underlying().(*types.Basic)
		if !ok || b.Info()&(types.IsInteger|types.IsBoolean) == 0 {
			return nil
		}
	}
	fieldOff := func(name string) int64 {
		i := fieldIndex(st, name)
		if i < 0 {
			return -1
		}
		return e.ti.FieldOffset(st, i)
	}
	ob, op, oe := fieldOff("buf"), fieldOff("pos"), fieldOff("err")
	if ob < 0 || op < 0 || oe < 0 {
		return nil
	}
	hInt, hSlice, hIface := fc.initHeaps["Int"], fc.initHeaps["Slice"], fc.initHeaps["Iface"]
	if hInt == nil || hSlice == nil || hIface == nil {
		return nil
	}
	r := fc.topParams[0].T
	at := func(h *Term, off int64) string {
		return fmt.Sprintf("(select (select %s (pobj %s)) (+ (pslot %s) %d))", h.S, r.S, r.S, off)
	}
	buf := at(hSlice, ob)
	var defs []string
	var terms []string
	add := func(sort, term string) int {
		k := len(terms)
		terms = append(terms, term)
		defs = append(defs, fmt.Sprintf("(declare-const rv!%d %s)\n(assert (= rv!%d %s))", k, sort, k, term))
		return k
	}
	kArr := add("Int", "(sarr "+buf+")")
	kOff := add("Int", "(soff "+buf+")")
	kLen := add("Int", "(slen "+buf+")")
	kCap := add("Int", "(scap "+buf+")")
	kPos := add("Int", at(hInt, op))
	kErr := add("Int", "(itag "+at(hIface, oe)+")")
	var kArgs []int
	for i := 1; i < len(fc.topParams); i++ {
		t := fc.topParams[i].T
		if t == nil {
			return nil
		}
		if t.Sort == SBool {
			kArgs = append(kArgs, add("Bool", t.S))
		} else {
			kArgs = append(kArgs, add("Int", t.S))
		}
	}
	script := o.Script.RenderMode(o.NFacts, o.NegGoal, true, false, true)
	cut := strings.LastIndex(script, "(check-sat)")
	if cut < 0 {
		return nil
	}
	// the replayed Reader uses binary.BigEndian (the library default), so the abstract byte-order functions
	// of binary.spec are given their big-endian meaning in the replay query
	script = pinBigEndian(script[:cut])
	cut = len(script)
	base := filepath.Join(dir, fileSafe(o.Name))
	run := func(extraDefs []string, n int) map[int]string {
		var sb strings.Builder
		sb.WriteString(script[:cut])
		sb.WriteString(strings.Join(extraDefs, "\n"))
		sb.WriteString("\n(check-sat)\n(get-value (")
		for k := 0; k < n; k++ {
			fmt.Fprintf(&sb, "rv!%d ", k)
		}
		sb.WriteString("))\n")
		f := base + ".values.smt2"
		os.WriteFile(f, []byte(sb.String()), 0o644)
		rr := runSolver(context.Background(), "z3-new", f, 20)
		if rr.result != "sat" {
			return nil
		}
		vals := map[int]string{}
		re := regexp.MustCompile(`\(rv!(\d+)\s+(\(-\s*\d+\)|\d+|true|false)\)`)
		for _, m := range re.FindAllStringSubmatch(rr.out, -1) {
			k, _ := strconv.Atoi(m[1])
			vals[k] = strings.ReplaceAll(strings.ReplaceAll(strings.ReplaceAll(m[2], "(- ", "-"), "(-", "-"), ")", "")
		}
		return vals
	}
	// prefer a small input: first ask for a model with a short buffer, then fall back to any model
	var vals map[int]string
	for _, lim := range []int{16, 256, replayMaxBytes, 0} {
		d := defs
		if lim > 0 {
			d = append(append([]string{}, defs...), fmt.Sprintf("(assert (and (<= rv!%d %d) (<= rv!%d %d)))", kCap, lim, kOff, lim))
		}
		if vals = run(d, len(terms)); vals != nil {
			break
		}
	}
	if vals == nil {
		return nil
	}
	geti := func(k int) int64 { v, _ := strconv.ParseInt(strings.TrimSpace(vals[k]), 10, 64); return v }
	ln, cp, off, pos := geti(kLen), geti(kCap), geti(kOff), geti(kPos)
	if ln < 0 || cp < ln || cp > replayMaxBytes || off < 0 || off > replayMaxBytes {
		return &ReplayResult{Reproduced: false, Input: fmt.Sprintf("model not replayable: len=%d cap=%d off=%d (above the %d byte replay limit)", ln, cp, off, replayMaxBytes)}
	}
	// second query: the buffer bytes of THE SAME kind of model (entry values pinned to the first answer)
	defs2 := append([]string{}, defs...)
	for _, k := range append([]int{kArr, kOff, kLen, kCap, kPos, kErr}, kArgs...) {
		defs2 = append(defs2, fmt.Sprintf("(assert (= rv!%d %s))", k, smtLit(vals[k])))
	}
	n0 := len(terms)
	for i := int64(0); i < ln; i++ {
		defs2 = append(defs2, fmt.Sprintf("(declare-const rv!%d Int)\n(assert (= rv!%d (select (select %s %s) %d)))", n0+int(i), n0+int(i), hInt.S, smtLit(vals[kArr]), off+i))
	}
	vals2 := run(defs2, n0+int(ln))
	if vals2 == nil {
		return nil
	}
	var bytesLit []string
	for i := int64(0); i < ln; i++ {
		b, _ := strconv.ParseInt(strings.TrimSpace(vals2[n0+int(i)]), 10, 64)
		bytesLit = append(bytesLit, strconv.Itoa(int(b&0xff)))
	}
	// the call
	var args []string
	for i := 0; i < sig.Params().Len(); i++ {
		v := strings.TrimSpace(vals[kArgs[i]])
		tn := types.TypeString(sig.Params().At(i).Type(), func(p *types.Package) string {
			if strings.HasSuffix(p.Path(), "internal/messages") {
				return ""
			}
			return p.Name()
		})
		if v == "true" || v == "false" {
			args = append(args, v)
		} else {
			args = append(args, fmt.Sprintf("%s(%s)", tn, v))
		}
	}
	input := fmt.Sprintf("Reader{len(buf)=%d cap=%d offset=%d pos=%d failed=%v buf=[%s]}.%s(%s)", ln, cp, off, pos, geti(kErr) != 0, strings.Join(bytesLit, " "), fc.topFn.Name(), strings.Join(args, ", "))
	test := fmt.Sprintf(`package messages

// Generated by govc from the solver's counterexample for obligation
//   %s
// (%s). It builds the entry state of the model and calls the real method.

import (
	"encoding/binary"
	"errors"
	"testing"
)

func TestGovcModelReplay(t *testing.T) {
	backing := make([]byte, %d)
	buf := backing[%d:%d:%d]
	copy(buf, []byte{%s})
	r := &Reader{buf: buf, pos: %d, order: binary.BigEndian}
	if %v {
		r.err = errors.New("model: the reader had already failed")
	}
	defer func() {
		if x := recover(); x != nil {
			t.Fatalf("REPRODUCED: panic: %%v", x)
		}
	}()
	r.%s(%s)
	if r.pos < 0 || r.pos > len(r.buf) {
		t.Fatalf("REPRODUCED: representation invariant broken after the call: pos=%%d len(buf)=%%d", r.pos, len(r.buf))
	}
}
`, o.Name, o.Desc, off+cp, off, off+ln, off+cp, strings.Join(bytesLit, ", "), pos, geti(kErr) != 0, fc.topFn.Name(), strings.Join(args, ", "))
	tf := base + "_model_replay_test.go"
	os.WriteFile(tf, []byte(test), 0o644)
	ov := base + ".overlay.json"
	target := filepath.Join(e.repo, "internal", "messages", "zz_govc_model_replay_test.go")
	ovb, _ := json.Marshal(map[string]any{"Replace": map[string]string{target: tf}})
	os.WriteFile(ov, ovb, 0o644)
	cmd := exec.Command("go", "test", "-overlay", ov, "-vet=off", "-count=1", "-timeout", "60s", "-run", "^TestGovcModelReplay$", "./internal/messages")
	cmd.Dir = e.repo
	out, err := cmd.CombinedOutput()
	os.Remove(ov)
	tail := string(out)
	if len(tail) > 3000 {
		tail = tail[len(tail)-3000:]
	}
	return &ReplayResult{Reproduced: err != nil && strings.Contains(tail, "REPRODUCED"), TestFile: tf, Output: tail, Input: input}
}

func smtLit(v string) string {
	v = strings.TrimSpace(v)
	if strings.HasPrefix(v, "-") {
		return "(- " + v[1:] + ")"
	}
	return v
}

func pinBigEndian(script string) string {
	for _, w := range []int{2, 4, 8} {
		decl := fmt.Sprintf("(declare-fun abs_bo%d (Iface%s) Int)", w*8, strings.Repeat(" Int", w))
		if !strings.Contains(script, decl) {
			continue
		}
		var ps, sum []string
		for i := 0; i < w; i++ {
			ps = append(ps, fmt.Sprintf("(b%d Int)", i))
			sh := uint64(1) << (8 * uint(w-1-i))
			if w == 8 && i == 0 {
				sum = append(sum, fmt.Sprintf("(* 72057594037927936 b%d)", i))
			} else {
				sum = append(sum, fmt.Sprintf("(* %d b%d)", sh, i))
			}
		}
		def := fmt.Sprintf("(define-fun abs_bo%d ((o Iface) %s) Int (+ %s))", w*8, strings.Join(ps, " "), strings.Join(sum, " "))
		script = strings.Replace(script, decl, def, 1)
	}
	return script
}
