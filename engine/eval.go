package main

import (
	"fmt"
	"go/constant"
	"go/token"
	"go/types"
	"math/big"
	"strconv"
	"strings"

	"golang.org/x/tools/go/ssa"
)

// TV is a typed symbolic value (Type may be nil for untyped spec integers / booleans).
type TV struct {
	V Val
	T types.Type
	// addressable location this value was read from (for modifies / & / field selection on values in memory)
	Addr *Term
}

// EvalCtx evaluates spec expressions in a state.
type EvalCtx struct {
	fc    *FnCtx
	fr    *Frame // for locals (may be nil at call sites)
	at    *ssa.BasicBlock
	cur   *State
	old   *State
	binds map[string]TV
	pkg   *types.Package
	depth int
	qn    *int
	seenKeys map[string]*Term // name of range loop var -> seen array (for seen(k))
	loopEntry *State          // state at the entry of the loop whose invariant is being evaluated
}

type evalErr struct{ msg string }

func (ev *EvalCtx) fail(format string, args ...any) {
	panic(evalErr{fmt.Sprintf(format, args...)})
}

func (fr *Frame) evalCtx(cur, old *State) *EvalCtx {
	n := 0
	return &EvalCtx{fc: fr.fc, fr: fr, cur: cur, old: old, binds: map[string]TV{}, pkg: fnTypesPkg(fr.fn), qn: &n}
}

func (ev *EvalCtx) with(binds map[string]TV) *EvalCtx {
	c := *ev
	c.binds = map[string]TV{}
	for k, v := range ev.binds {
		c.binds[k] = v
	}
	for k, v := range binds {
		c.binds[k] = v
	}
	return &c
}

func (ev *EvalCtx) evalBool(e Expr) *Term {
	tv := ev.eval(e)
	if tv.V.T == nil || tv.V.T.Sort != SBool {
		ev.fail("expected boolean: %s", exprString(e))
	}
	return tv.V.T
}

func (ev *EvalCtx) evalInt(e Expr) *Term {
	tv := ev.eval(e)
	if tv.V.T == nil || tv.V.T.Sort != SInt {
		ev.fail("expected integer: %s", exprString(e))
	}
	return tv.V.T
}

// resolveGeneric finds the generic named type pkg.G (or G in the current package).
func (ev *EvalCtx) resolveGeneric(name string) types.Type {
	pkgName, tn := "", name
	if k := strings.LastIndex(name, "."); k > 0 {
		pkgName, tn = name[:k], name[k+1:]
	}
	for _, p := range ev.fc.eng.allTypesPkgs() {
		if (pkgName == "" && p == ev.pkg) || (pkgName != "" && (p.Name() == pkgName || p.Path() == pkgName)) {
			if obj, ok := p.Scope().Lookup(tn).(*types.TypeName); ok {
				if nt, ok := obj.Type().(*types.Named); ok && nt.TypeParams().Len() > 0 {
					return nt
				}
			}
		}
	}
	return nil
}

// tryResolveType: like resolveType, but a parameter declared with a generic type that cannot be named without
// instantiation (`f *Future`) takes the type of the actual argument.
func (ev *EvalCtx) tryResolveType(s string, actual types.Type) (t types.Type) {
	if actual == nil {
		return ev.resolveType(s)
	}
	defer func() {
		if r := recover(); r != nil {
			if _, ok := r.(evalErr); ok {
				t = actual
				return
			}
			panic(r)
		}
	}()
	return ev.resolveType(s)
}

func (ev *EvalCtx) resolveType(s string) types.Type {
	s = strings.TrimSpace(s)
	switch s {
	case "int":
		return types.Typ[types.Int]
	case "mathint":
		return types.Typ[types.UntypedInt]
	}
	// instantiation of a generic type: *pkg.G[pkg.A]
	if strings.HasSuffix(s, "]") && !strings.HasPrefix(s, "[") && !strings.HasPrefix(s, "map[") {
		if k := strings.Index(s, "["); k > 0 && !strings.HasPrefix(s[k:], "[]") {
			head, arg := s[:k], s[k+1:len(s)-1]
			pre := ""
			for strings.HasPrefix(head, "*") {
				pre += "*"
				head = head[1:]
			}
			gt := ev.resolveGeneric(head)
			if gt != nil {
				at := ev.resolveType(arg)
				inst, err := types.Instantiate(nil, gt, []types.Type{at}, false)
				if err != nil {
					ev.fail("cannot instantiate %s: %v", s, err)
				}
				var t types.Type = inst
				for range pre {
					t = types.NewPointer(t)
				}
				return t
			}
		}
	}
	tvv, err := types.Eval(ev.fc.eng.fset, ev.pkg, token.NoPos, s)
	if err != nil {
		// maybe a type from an imported package not in scope; try all loaded packages
		if k := strings.LastIndex(s, "."); k > 0 {
			pre := ""
			rest := s
			for strings.HasPrefix(rest, "*") || strings.HasPrefix(rest, "[]") {
				if rest[0] == '*' {
					pre += "*"
					rest = rest[1:]
				} else {
					pre += "[]"
					rest = rest[2:]
				}
			}
			k = strings.LastIndex(rest, ".")
			pkgName, tn := rest[:k], rest[k+1:]
			for _, p := range ev.fc.eng.allTypesPkgs() {
				if p.Name() == pkgName || p.Path() == pkgName {
					if obj := p.Scope().Lookup(tn); obj != nil {
						var t types.Type = obj.Type()
						for i := len(pre); i > 0; {
							if strings.HasSuffix(pre[:i], "[]") {
								t = types.NewSlice(t)
								i -= 2
							} else {
								t = types.NewPointer(t)
								i--
							}
						}
						return t
					}
				}
			}
		}
		ev.fail("cannot resolve type %q: %v", s, err)
	}
	if !tvv.IsType() {
		ev.fail("%q is not a type", s)
	}
	return tvv.Type
}

func (ev *EvalCtx) eval(e Expr) TV {
	fc := ev.fc
	switch e := e.(type) {
	case EInt:
		bi, ok := new(big.Int).SetString(e.V, 0)
		if !ok {
			ev.fail("bad integer %s", e.V)
		}
		return TV{V: scalar(BigLit(bi))}
	case EBool:
		return TV{V: scalar(BoolLit(e.V))}
	case EStr:
		return TV{V: scalar(fc.sc.StrLit(e.V)), T: types.Typ[types.String]}
	case ENil:
		return TV{} // typed by context
	case EOld:
		if ev.old == nil {
			ev.fail("old() not available here")
		}
		c := *ev
		c.cur = ev.old
		return c.eval(e.X)
	case EIdent:
		return ev.evalIdent(e.Name)
	case EUnary:
		switch e.Op {
		case "!":
			return TV{V: scalar(Not(ev.evalBool(e.X)))}
		case "-":
			return TV{V: scalar(Neg(ev.evalInt(e.X)))}
		case "*":
			x := ev.eval(e.X)
			pt, ok := x.T.Underlying().(*types.Pointer)
			if !ok {
				ev.fail("* of non-pointer %s", exprString(e.X))
			}
			return TV{V: ev.specLoad(x.V.T, pt.Elem()), T: pt.Elem(), Addr: x.V.T}
		case "&":
			x := ev.eval(e.X)
			if x.Addr == nil {
				ev.fail("& of non-addressable %s", exprString(e.X))
			}
			return TV{V: scalar(x.Addr), T: types.NewPointer(x.T)}
		}
	case EBinary:
		return ev.evalBinary(e)
	case ECond:
		c := ev.evalBool(e.C)
		a := ev.eval(e.A)
		b := ev.eval(e.B)
		a, b = ev.unifyNil(a, b)
		return TV{V: iteVal(c, a.V, b.V), T: pickType(a.T, b.T)}
	case ESel:
		return ev.evalSel(e)
	case EIndex:
		return ev.evalIndex(e)
	case ECall:
		return ev.evalCall(e)
	case EQuant:
		return ev.evalQuant(e)
	}
	ev.fail("cannot evaluate %s", exprString(e))
	return TV{}
}

// specLoad reads memory for a spec expression; for closed terms the type facts of the loaded value
// (ranges, well-formed references) are added as facts, exactly as for loads in the code.
func (ev *EvalCtx) specLoad(p *Term, t types.Type) Val {
	v := ev.fc.load(ev.cur, p, t)
	return ev.typed(v, t)
}

// typed makes the type invariant of a value read by a spec available: closed terms get their type
// facts asserted; terms under a quantifier (which cannot be asserted outside it) have their integer
// leaves clamped into the range of their Go type - the identity on every real, well-typed state.
func (ev *EvalCtx) typed(v Val, t types.Type) Val {
	leaves := flatten(v, nil)
	open := false
	for _, l := range leaves {
		if strings.Contains(l.S, "!b") {
			open = true
		}
	}
	if !open {
		ev.fc.sc.Assert(ev.fc.typeFacts(ev.cur, v, t))
		return v
	}
	return ev.clamp(v, t)
}

func clampName(t types.Type, sizes types.Sizes) string {
	b, ok := t.Underlying().(*types.Basic)
	if !ok || b.Info()&types.IsInteger == 0 || b.Info()&types.IsUntyped != 0 {
		return ""
	}
	bits := sizes.Sizeof(t) * 8
	if b.Info()&types.IsUnsigned != 0 {
		return fmt.Sprintf("clamp_uint%d", bits)
	}
	return fmt.Sprintf("clamp_int%d", bits)
}

func (ev *EvalCtx) clamp(v Val, t types.Type) Val {
	if v.T != nil {
		if v.T.Sort == SPtr {
			// pointers to standalone struct types always point at the start of their allocation
			// pointers to standalone struct types always point at the start of their allocation
			if pt, ok := t.Underlying().(*types.Pointer); ok && ev.fc.eng.ti.Standalone(pt.Elem()) {
				*ev.qn++
				x := fmt.Sprintf("p!l%d", *ev.qn)
				base := IntLit(ev.fc.eng.ti.BaseSlot(pt.Elem()))
				return scalar(mk(SPtr, fmt.Sprintf("(let ((%s %s)) (mkptr (pobj %s) (ite (= (pobj %s) 0) 0 %s)))", x, v.T.S, x, x, base.S)))
			}
			return v
		}
		if v.T.Sort == SInt {
			if name := clampName(t, ev.fc.eng.ti.sizes); name != "" {
				return scalar(app(SInt, name, v.T))
			}
		}
		return v
	}
	out := Val{Fs: make([]Val, len(v.Fs))}
	switch u := t.Underlying().(type) {
	case *types.Struct:
		for i := range v.Fs {
			out.Fs[i] = ev.clamp(v.Fs[i], u.Field(i).Type())
		}
	case *types.Array:
		for i := range v.Fs {
			out.Fs[i] = ev.clamp(v.Fs[i], u.Elem())
		}
	default:
		return v
	}
	return out
}

func pickType(a, b types.Type) types.Type {
	if a != nil {
		return a
	}
	return b
}

func (ev *EvalCtx) unifyNil(a, b TV) (TV, TV) {
	if a.V.T == nil && a.V.Fs == nil && a.T == nil {
		if b.V.T == nil {
			ev.fail("nil compared with aggregate")
		}
		a = TV{V: scalar(ev.fc.zero(b.V.T.Sort)), T: b.T}
	}
	if b.V.T == nil && b.V.Fs == nil && b.T == nil {
		if a.V.T == nil {
			ev.fail("nil compared with aggregate")
		}
		b = TV{V: scalar(ev.fc.zero(a.V.T.Sort)), T: a.T}
	}
	return a, b
}

func (ev *EvalCtx) evalIdent(name string) TV {
	fc := ev.fc
	if tv, ok := ev.binds[name]; ok {
		return tv
	}
	if ev.fr != nil {
		// function-local ghost variable of the enclosing contract
		for f := ev.fr; f != nil; f = f.parent {
			if f.spec != nil {
				for _, c := range f.spec.ClausesOf("ghostvar") {
					if n, so := parseGhostVar(c); n == name {
						tv := TV{V: scalar(fc.ghost(ev.cur, "gv:"+name, so))}
						if so == SIface {
							tv.T = types.NewInterfaceType(nil, nil)
						}
						return tv
					}
				}
			}
			if f.fn.Parent() == nil {
				break
			}
		}
		if v, t, ok := ev.fr.localByName(name, ev.at, ev.cur); ok {
			return TV{V: v, T: t, Addr: ev.fr.lastLocalAddr}
		}
	}
	// package-level constant / variable
	if ev.pkg != nil {
		if obj := ev.pkg.Scope().Lookup(name); obj != nil {
			return ev.objValue(obj)
		}
	}
	_ = fc
	ev.fail("unknown identifier %s", name)
	return TV{}
}

func (ev *EvalCtx) objValue(obj types.Object) TV {
	fc := ev.fc
	switch o := obj.(type) {
	case *types.Const:
		switch o.Val().Kind() {
		case constant.Int:
			bi, _ := new(big.Int).SetString(o.Val().ExactString(), 10)
			return TV{V: scalar(BigLit(bi)), T: o.Type()}
		case constant.Bool:
			return TV{V: scalar(BoolLit(constant.BoolVal(o.Val()))), T: o.Type()}
		case constant.String:
			return TV{V: scalar(fc.sc.StrLit(constant.StringVal(o.Val()))), T: o.Type()}
		}
	case *types.Var:
		// package-level variable
		if g := fc.eng.globalFor(o); g != nil {
			if v, ok := fc.eng.globalConst(fc, g, ev.cur); ok {
				return TV{V: v, T: o.Type()}
			}
			p := fc.eng.globalPtr(fc, g)
			return TV{V: fc.load(ev.cur, p, o.Type()), T: o.Type(), Addr: p}
		}
	}
	ev.fail("cannot use %s in a spec", obj.Name())
	return TV{}
}

func isIntSort(tv TV) bool { return tv.V.T != nil && tv.V.T.Sort == SInt }

func (ev *EvalCtx) evalBinary(e EBinary) TV {
	fc := ev.fc
	switch e.Op {
	case "&&":
		return TV{V: scalar(And(ev.evalBool(e.L), ev.evalBool(e.R)))}
	case "||":
		return TV{V: scalar(Or(ev.evalBool(e.L), ev.evalBool(e.R)))}
	case "==>":
		return TV{V: scalar(Implies(ev.evalBool(e.L), ev.evalBool(e.R)))}
	case "<==>":
		return TV{V: scalar(Eq(ev.evalBool(e.L), ev.evalBool(e.R)))}
	case "in":
		k := ev.eval(e.L)
		m := ev.eval(e.R)
		mt, ok := m.T.Underlying().(*types.Map)
		if !ok {
			ev.fail("'in' needs a map: %s", exprString(e.R))
		}
		return TV{V: scalar(fc.mapHas(ev.cur, m.V.T, mt, k.V))}
	}
	l := ev.eval(e.L)
	r := ev.eval(e.R)
	switch e.Op {
	case "==", "!=":
		l, r = ev.unifyNil(l, r)
		var eq *Term
		if l.V.T != nil && r.V.T != nil && l.V.T.Sort != r.V.T.Sort {
			ev.fail("comparison of different sorts: %s", exprString(e))
		}
		eq = eqVal(l.V, r.V)
		if e.Op == "!=" {
			eq = Not(eq)
		}
		return TV{V: scalar(eq)}
	}
	if l.V.T != nil && l.V.T.Sort == SStr && e.Op == "+" {
		return TV{V: scalar(app(SStr, "strcat", l.V.T, r.V.T)), T: l.T}
	}
	if l.V.T != nil && l.V.T.Sort == SStr && (e.Op == "<" || e.Op == "<=" || e.Op == ">" || e.Op == ">=") {
		fc.sc.usesStrLt = true
		switch e.Op {
		case "<":
			return TV{V: scalar(app(SBool, "strlt", l.V.T, r.V.T))}
		case ">":
			return TV{V: scalar(app(SBool, "strlt", r.V.T, l.V.T))}
		case "<=":
			return TV{V: scalar(Not(app(SBool, "strlt", r.V.T, l.V.T)))}
		default:
			return TV{V: scalar(Not(app(SBool, "strlt", l.V.T, r.V.T)))}
		}
	}
	if !isIntSort(l) || !isIntSort(r) {
		ev.fail("arithmetic on non-integers: %s", exprString(e))
	}
	a, b := l.V.T, r.V.T
	t := pickType(l.T, r.T)
	switch e.Op {
	case "+":
		return TV{V: scalar(Add(a, b)), T: t}
	case "-":
		return TV{V: scalar(Sub(a, b)), T: t}
	case "*":
		return TV{V: scalar(Mul(a, b)), T: t}
	case "/":
		if isNumeral(b.S) && b.S != "0" {
			return TV{V: scalar(app(SInt, "div", a, b)), T: t}
		}
		return TV{V: scalar(app(SInt, "dv", a, b)), T: t}
	case "%":
		if isNumeral(b.S) && b.S != "0" {
			return TV{V: scalar(app(SInt, "mod", a, b)), T: t}
		}
		return TV{V: scalar(app(SInt, "md", a, b)), T: t}
	case "<<":
		if isNumeral(b.S) {
			n, _ := strconv.Atoi(b.S)
			m := new(big.Int).Lsh(big.NewInt(1), uint(n))
			if isNumeral(a.S) {
				x, _ := new(big.Int).SetString(a.S, 10)
				return TV{V: scalar(BigLit(new(big.Int).Mul(x, m))), T: t}
			}
			return TV{V: scalar(Mul(a, BigLit(m))), T: t}
		}
	case "<":
		return TV{V: scalar(Lt(a, b))}
	case "<=":
		return TV{V: scalar(Le(a, b))}
	case ">":
		return TV{V: scalar(Gt(a, b))}
	case ">=":
		return TV{V: scalar(Ge(a, b))}
	}
	ev.fail("operator %s not supported in specs", e.Op)
	return TV{}
}

// fieldOf finds field `name` in struct type st (including promoted fields through embedding, one level).
func fieldIndex(st *types.Struct, name string) int {
	for i := 0; i < st.NumFields(); i++ {
		if st.Field(i).Name() == name {
			return i
		}
	}
	return -1
}

func (ev *EvalCtx) evalSel(e ESel) TV {
	fc := ev.fc
	// package-qualified constant: pkg.Name
	if id, ok := e.X.(EIdent); ok {
		if _, bound := ev.binds[id.Name]; !bound {
			isLocal := false
			if ev.fr != nil {
				_, _, isLocal = ev.fr.localByName(id.Name, ev.at, ev.cur)
			}
			if !isLocal && (ev.pkg == nil || ev.pkg.Scope().Lookup(id.Name) == nil) {
				for _, p := range fc.eng.allTypesPkgs() {
					if p.Name() == id.Name {
						if obj := p.Scope().Lookup(e.Name); obj != nil {
							return ev.objValue(obj)
						}
					}
				}
			}
		}
	}
	x := ev.eval(e.X)
	// tuple selection result.0
	if n, err := strconv.Atoi(e.Name); err == nil {
		if x.V.T != nil || n >= len(x.V.Fs) {
			ev.fail("bad tuple selection %s", exprString(e))
		}
		var t types.Type
		if tup, ok := x.T.(*types.Tuple); ok {
			t = tup.At(n).Type()
		}
		return TV{V: x.V.Fs[n], T: t}
	}
	if x.T == nil {
		ev.fail("selector on untyped value %s", exprString(e))
	}
	switch u := x.T.Underlying().(type) {
	case *types.Pointer:
		st, ok := u.Elem().Underlying().(*types.Struct)
		if !ok {
			ev.fail("selector on pointer to non-struct: %s", exprString(e))
		}
		i := fieldIndex(st, e.Name)
		if i < 0 {
			// promoted through embedded struct
			for j := 0; j < st.NumFields(); j++ {
				if st.Field(j).Embedded() {
					if est, ok := st.Field(j).Type().Underlying().(*types.Struct); ok {
						if k := fieldIndex(est, e.Name); k >= 0 {
							off := fc.eng.ti.FieldOffset(st, j) + fc.eng.ti.FieldOffset(est, k)
							p := MkPtr(PObj(x.V.T), Add(PSlot(x.V.T), IntLit(off)))
							ft := est.Field(k).Type()
							return TV{V: ev.specLoad(p, ft), T: ft, Addr: p}
						}
					}
					if ept, ok := st.Field(j).Type().Underlying().(*types.Pointer); ok {
						if est, ok := ept.Elem().Underlying().(*types.Struct); ok {
							if k := fieldIndex(est, e.Name); k >= 0 {
								off := fc.eng.ti.FieldOffset(st, j)
								p0 := MkPtr(PObj(x.V.T), Add(PSlot(x.V.T), IntLit(off)))
								inner := fc.load(ev.cur, p0, st.Field(j).Type()).T
								p := MkPtr(PObj(inner), Add(PSlot(inner), IntLit(fc.eng.ti.FieldOffset(est, k))))
								ft := est.Field(k).Type()
								return TV{V: ev.specLoad(p, ft), T: ft, Addr: p}
							}
						}
					}
				}
			}
			ev.fail("no field %s in %s", e.Name, x.T)
		}
		off := fc.eng.ti.FieldOffset(st, i)
		p := MkPtr(PObj(x.V.T), Add(PSlot(x.V.T), IntLit(off)))
		ft := st.Field(i).Type()
		return TV{V: ev.specLoad(p, ft), T: ft, Addr: p}
	case *types.Struct:
		i := fieldIndex(u, e.Name)
		if i < 0 {
			ev.fail("no field %s in %s", e.Name, x.T)
		}
		tv := TV{V: x.V.Fs[i], T: u.Field(i).Type()}
		if x.Addr != nil {
			tv.Addr = MkPtr(PObj(x.Addr), Add(PSlot(x.Addr), IntLit(fc.eng.ti.FieldOffset(u, i))))
		}
		return tv
	}
	ev.fail("selector %s on %s", e.Name, x.T)
	return TV{}
}

func (ev *EvalCtx) evalIndex(e EIndex) TV {
	fc := ev.fc
	x := ev.eval(e.X)
	if x.T == nil {
		ev.fail("index on untyped value")
	}
	switch u := x.T.Underlying().(type) {
	case *types.Slice:
		i := ev.evalInt(e.I)
		lay := fc.eng.ti.LayoutOf(u.Elem())
		w := lay.Width
		p := MkPtr(SArr(x.V.T), Add(SOff(x.V.T), Mul(i, IntLit(w))))
		// element read through elt_S(row, off, index): no arithmetic inside quantifier triggers
		leaves := make([]*Term, len(lay.Leaves))
		for k, lf := range lay.Leaves {
			h := fc.leafHeap(ev.cur, lf.Sort)
			leaves[k] = app(lf.Sort, "elt_"+string(lf.Sort), Select(h, SArr(x.V.T)), SOff(x.V.T), Add(Mul(i, IntLit(w)), IntLit(lf.Off)))
		}
		pos := 0
		v := fc.unflatten(u.Elem(), leaves, &pos)
		return TV{V: ev.typed(v, u.Elem()), T: u.Elem(), Addr: p}
	case *types.Map:
		k := ev.eval(e.I)
		return TV{V: ev.typed(fc.mapGet(ev.cur, x.V.T, u, k.V), u.Elem()), T: u.Elem()}
	case *types.Basic:
		if u.Info()&types.IsString != 0 {
			i := ev.evalInt(e.I)
			return TV{V: scalar(app(SInt, "strbyte", x.V.T, i)), T: types.Typ[types.Uint8]}
		}
	case *types.Pointer:
		if at, ok := u.Elem().Underlying().(*types.Array); ok {
			i := ev.evalInt(e.I)
			w := fc.eng.ti.LayoutOf(at.Elem()).Width
			p := MkPtr(PObj(x.V.T), Add(PSlot(x.V.T), Mul(i, IntLit(w))))
			return TV{V: ev.specLoad(p, at.Elem()), T: at.Elem(), Addr: p}
		}
	}
	ev.fail("index on %s", x.T)
	return TV{}
}

func (ev *EvalCtx) evalQuant(e EQuant) TV {
	fc := ev.fc
	binds := map[string]TV{}
	var decl []string
	var ranges []*Term
	for _, v := range e.Vars {
		var t types.Type
		if strings.HasPrefix(v.Type, "mapkey(") && strings.HasSuffix(v.Type, ")") {
			// key type of a (generically typed) map parameter
			mv := ev.evalIdent(v.Type[len("mapkey(") : len(v.Type)-1])
			mt, ok := mv.T.Underlying().(*types.Map)
			if !ok {
				ev.fail("mapkey() of non-map")
			}
			t = mt.Key()
		} else {
			t = ev.resolveType(v.Type)
		}
		s, ok := leafSort(t)
		if !ok {
			ev.fail("quantified variable %s must have a scalar type", v.Name)
		}
		*ev.qn++
		name := fmt.Sprintf("%s!b%d", sanitize(v.Name), *ev.qn)
		term := mk(s, name)
		binds[v.Name] = TV{V: scalar(term), T: t}
		decl = append(decl, fmt.Sprintf("(%s %s)", name, s))
		if v.Type != "mathint" {
			if lo, hi, ok := intRange(t, fc.eng.ti.sizes); ok {
				ranges = append(ranges, Le(BigLit(lo), term), Le(term, BigLit(hi)))
			}
		}
	}
	body := ev.with(binds).evalBool(e.Body)
	q := "forall"
	var full *Term
	if e.Forall {
		full = Implies(And(ranges...), body)
	} else {
		q = "exists"
		full = And(append(ranges, body)...)
	}
	var names []string
	for _, d := range decl {
		names = append(names, d[1:strings.Index(d, " ")])
	}
	pats := patternsFor(full.S, names)
	if pats != "" {
		return TV{V: scalar(mk(SBool, fmt.Sprintf("(%s (%s) (! %s%s))", q, strings.Join(decl, " "), full.S, pats)))}
	}
	return TV{V: scalar(mk(SBool, fmt.Sprintf("(%s (%s) %s)", q, strings.Join(decl, " "), full.S)))}
}

func (ev *EvalCtx) evalCall(e ECall) TV {
	fc := ev.fc
	argn := func(n int) {
		if len(e.Args) != n {
			ev.fail("%s expects %d arguments", e.Fn, n)
		}
	}
	switch e.Fn {
	case "len":
		argn(1)
		x := ev.eval(e.Args[0])
		if x.T == nil {
			ev.fail("len of untyped")
		}
		switch u := x.T.Underlying().(type) {
		case *types.Slice:
			return TV{V: scalar(SLen(x.V.T)), T: types.Typ[types.Int]}
		case *types.Map:
			return TV{V: scalar(fc.mapLen(ev.cur, x.V.T, u)), T: types.Typ[types.Int]}
		case *types.Basic:
			return TV{V: scalar(StrLen(x.V.T)), T: types.Typ[types.Int]}
		}
		ev.fail("len of %s", x.T)
	case "cap":
		argn(1)
		x := ev.eval(e.Args[0])
		return TV{V: scalar(SCap(x.V.T)), T: types.Typ[types.Int]}
	case "md":
		argn(2)
		return TV{V: scalar(app(SInt, "md", ev.evalInt(e.Args[0]), ev.evalInt(e.Args[1])))}
	case "dv":
		argn(2)
		return TV{V: scalar(app(SInt, "dv", ev.evalInt(e.Args[0]), ev.evalInt(e.Args[1])))}
	case "min", "max":
		argn(2)
		a, b := ev.evalInt(e.Args[0]), ev.evalInt(e.Args[1])
		if e.Fn == "min" {
			return TV{V: scalar(Ite(Le(a, b), a, b))}
		}
		return TV{V: scalar(Ite(Ge(a, b), a, b))}
	case "int", "int8", "int16", "int32", "int64", "uint", "uint8", "uint16", "uint32", "uint64", "byte", "mathint":
		argn(1)
		x := ev.eval(e.Args[0])
		if e.Fn == "mathint" {
			return TV{V: x.V}
		}
		// Go conversion semantics: wrap into the target type
		tt := ev.resolveType(e.Fn)
		if x.V.T == nil || x.V.T.Sort != SInt {
			ev.fail("conversion %s() of non-integer", e.Fn)
		}
		lo, hi, _ := intRange(tt, fc.eng.ti.sizes)
		size := new(big.Int).Add(new(big.Int).Sub(hi, lo), big.NewInt(1))
		m := app(SInt, "mod", x.V.T, BigLit(size))
		if lo.Sign() != 0 {
			m = Ite(Gt(m, BigLit(hi)), Sub(m, BigLit(size)), m)
		}
		return TV{V: scalar(m), T: tt}
	case "fresh":
		// fresh(x): x's object was allocated during the call / function
		argn(1)
		x := ev.eval(e.Args[0])
		if ev.old == nil {
			ev.fail("fresh() needs a pre-state")
		}
		obj := refObj(x)
		if obj == nil {
			ev.fail("fresh() of non-reference")
		}
		return TV{V: scalar(And(Ge(obj, ev.old.next), Lt(obj, ev.cur.next)))}
	case "seen":
		argn(1)
		k := ev.eval(e.Args[0])
		arr := ev.seenArray(k.V.T.Sort, "")
		return TV{V: scalar(Select(arr, k.V.T))}
	case "entry":
		// entry(e): value of e when the enclosing loop was entered (loop invariants only)
		argn(1)
		if ev.loopEntry == nil {
			ev.fail("entry() is only available in loop invariants")
		}
		c := *ev
		c.cur = ev.loopEntry
		return c.eval(e.Args[0])
	case "gcount":
		// gcount(name, key[, key2]): value of the declared ghost counter map `name`
		if len(e.Args) < 2 {
			ev.fail("gcount(name, key...)")
		}
		id, ok := e.Args[0].(EIdent)
		if !ok {
			ev.fail("gcount(name, key...)")
		}
		var keys []*Term
		for _, a := range e.Args[1:] {
			k := ev.eval(a)
			if k.V.T == nil {
				ev.fail("gcount key must be scalar")
			}
			keys = append(keys, k.V.T)
		}
		arr := ev.ghostMap(id.Name, keys)
		cur := arr
		for _, k := range keys {
			cur = Select(cur, k)
		}
		return TV{V: scalar(cur)}
	case "seencount":
		// seencount(): number of keys the (unique) active map range has visited so far
		argn(0)
		var found *Term
		n := 0
		for k, g := range ev.cur.ghosts {
			if strings.HasPrefix(k, "seencnt:") {
				if ev.fr != nil && ev.at != nil && !ev.fr.rangeActiveAt(strings.TrimPrefix(k, "seencnt:"), ev.at) {
					continue
				}
				found = g
				n++
			}
		}
		if n != 1 {
			ev.fail("seencount(): %d candidate map ranges", n)
		}
		return TV{V: scalar(found)}
	case "typeis":
		// typeis(x, "T"): dynamic type of interface x is T
		argn(2)
		x := ev.eval(e.Args[0])
		s, ok := e.Args[1].(EStr)
		if !ok {
			ev.fail("typeis needs a type string")
		}
		t := ev.resolveType(s.V)
		tag := fc.eng.ti.TagOf(t)
		fc.concreteTags[tag] = t
		return TV{V: scalar(Eq(ITag(x.V.T), IntLit(int64(tag))))}
	case "aval":
		// aval(x): current value of the typed atomic x (atomic.Int32 / Int64 / Uint32 / Uint64 / Bool / Pointer[T])
		argn(1)
		x := ev.eval(e.Args[0])
		if x.Addr == nil {
			ev.fail("aval() needs an addressable atomic")
		}
		var vt types.Type
		tn := types.TypeString(x.T, nil)
		switch {
		case strings.HasSuffix(tn, "atomic.Int32"):
			vt = types.Typ[types.Int32]
		case strings.HasSuffix(tn, "atomic.Int64"):
			vt = types.Typ[types.Int64]
		case strings.HasSuffix(tn, "atomic.Uint32"):
			vt = types.Typ[types.Uint32]
		case strings.HasSuffix(tn, "atomic.Uint64"):
			vt = types.Typ[types.Uint64]
		case strings.HasSuffix(tn, "atomic.Bool"):
			vt = types.Typ[types.Bool]
		default:
			if nt, ok := types.Unalias(x.T).(*types.Named); ok && strings.Contains(tn, "atomic.Pointer[") && nt.TypeArgs().Len() == 1 {
				vt = types.NewPointer(nt.TypeArgs().At(0))
			} else {
				ev.fail("aval(): %s is not a typed atomic", tn)
			}
		}
		cell := MkPtr(PObj(x.Addr), Add(PSlot(x.Addr), IntLit(2048)))
		return TV{V: ev.specLoad(cell, vt), T: vt, Addr: cell}
	case "implements":
		// implements(x, "I"): x is a non-nil interface value whose dynamic type implements interface I
		argn(2)
		x := ev.eval(e.Args[0])
		s, ok := e.Args[1].(EStr)
		if !ok {
			ev.fail("implements needs a type string")
		}
		t := ev.resolveType(s.V)
		if _, isI := t.Underlying().(*types.Interface); !isI {
			ev.fail("implements: %s is not an interface type", s.V)
		}
		return TV{V: scalar(And(Ne(ITag(x.V.T), IntLit(0)), app(SBool, fc.implPred(t), ITag(x.V.T))))}
	case "nilptr":
		// nilptr(v): interface v holds a nil pointer (of any pointer type)
		argn(1)
		x := ev.eval(e.Args[0])
		fc.sc.DeclFun("ptrtag", []Sort{SInt}, SBool)
		fc.usesPtrTag = true
		u := fc.unbox(IPay(x.V.T), types.NewPointer(types.Typ[types.Int]))
		return TV{V: scalar(And(app(SBool, "ptrtag", ITag(x.V.T)), Eq(PObj(u.T), IntLit(0))))}
	case "elemkind":
		// elemkind(v): the dynamic type of interface v is a pointer, slice, array, map or channel
		argn(1)
		x := ev.eval(e.Args[0])
		fc.sc.DeclFun("elemtag", []Sort{SInt}, SBool)
		fc.usesPtrTag = true
		return TV{V: scalar(And(Ne(ITag(x.V.T), IntLit(0)), app(SBool, "elemtag", ITag(x.V.T))))}
	case "ptrobj":
		// ptrobj(v): the object an interface-held pointer points into
		argn(1)
		x := ev.eval(e.Args[0])
		u := fc.unbox(IPay(x.V.T), types.NewPointer(types.Typ[types.Int]))
		return TV{V: scalar(PObj(u.T))}
	case "typetag":
		// typetag(x): dynamic type tag of interface value x
		argn(1)
		x := ev.eval(e.Args[0])
		return TV{V: scalar(ITag(x.V.T))}
	case "tagof":
		// tagof("T"): the tag of concrete type T
		argn(1)
		sarg, ok := e.Args[0].(EStr)
		if !ok {
			ev.fail("tagof needs a type string")
		}
		t := ev.resolveType(sarg.V)
		tag := fc.eng.ti.TagOf(t)
		fc.concreteTags[tag] = t
		return TV{V: scalar(IntLit(int64(tag)))}
	case "iface":
		// iface(x): the interface value holding x (boxed with x's static type); nil pointers give a typed nil
		argn(1)
		x := ev.eval(e.Args[0])
		if x.T == nil {
			ev.fail("iface() of untyped value")
		}
		if _, isI := x.T.Underlying().(*types.Interface); isI {
			return x
		}
		tag := fc.eng.ti.TagOf(x.T)
		fc.concreteTags[tag] = x.T
		return TV{V: scalar(MkIface(IntLit(int64(tag)), fc.box(x.V, x.T)))}
	case "emptyiface":
		// emptyiface("T"): the interface value holding the (unique) value of zero-size type T
		argn(1)
		sarg, ok := e.Args[0].(EStr)
		if !ok {
			ev.fail("emptyiface needs a type string")
		}
		t := ev.resolveType(sarg.V)
		if fc.eng.ti.LayoutOf(t).Width != 0 {
			ev.fail("emptyiface: %s is not a zero-size type", sarg.V)
		}
		tag := fc.eng.ti.TagOf(t)
		fc.concreteTags[tag] = t
		return TV{V: scalar(MkIface(IntLit(int64(tag)), IntLit(0)))}
	case "unboxed":
		// unboxed(x, "T"): payload of interface x viewed as T
		argn(2)
		x := ev.eval(e.Args[0])
		s, ok := e.Args[1].(EStr)
		if !ok {
			ev.fail("unboxed needs a type string")
		}
		t := ev.resolveType(s.V)
		return TV{V: fc.unbox(IPay(x.V.T), t), T: t}
	case "held":
		argn(1)
		x := ev.eval(e.Args[0])
		if x.Addr == nil {
			ev.fail("held() needs an addressable lock")
		}
		return TV{V: scalar(Or(Select(fc.heldSet(ev.cur), x.Addr), Select(fc.rheldSet(ev.cur), x.Addr)))}
	case "ghost":
		argn(1)
		id, ok := e.Args[0].(EIdent)
		if !ok {
			ev.fail("ghost(name)")
		}
		return TV{V: scalar(fc.ghostInt(ev.cur, id.Name))}
	case "strlt":
		argn(2)
		fc.sc.usesStrLt = true
		return TV{V: scalar(app(SBool, "strlt", ev.eval(e.Args[0]).V.T, ev.eval(e.Args[1]).V.T))}
	case "arr":
		// arr(s): identity of the backing array of slice s
		argn(1)
		x := ev.eval(e.Args[0])
		return TV{V: scalar(SArr(x.V.T))}
	case "off":
		argn(1)
		x := ev.eval(e.Args[0])
		return TV{V: scalar(SOff(x.V.T))}
	case "obj":
		argn(1)
		x := ev.eval(e.Args[0])
		o := refObj(x)
		if o == nil {
			ev.fail("obj() of non-reference")
		}
		return TV{V: scalar(o)}
	case "allocated_old":
		argn(1)
		x := ev.eval(e.Args[0])
		o := refObj(x)
		if ev.old == nil {
			ev.fail("allocated_old() needs a pre-state")
		}
		return TV{V: scalar(Lt(o, ev.old.next))}
	case "allocated":
		// allocated(x): object existed in the current state
		argn(1)
		x := ev.eval(e.Args[0])
		o := refObj(x)
		return TV{V: scalar(Lt(o, ev.cur.next))}
	case "bytestr":
		// bytestr(s, lo, n): the string made of bytes s[lo .. lo+n)
		argn(3)
		x := ev.eval(e.Args[0])
		lo := ev.evalInt(e.Args[1])
		n := ev.evalInt(e.Args[2])
		h := fc.leafHeap(ev.cur, SInt)
		return TV{V: scalar(app(SStr, "mkstr", Select(h, SArr(x.V.T)), Add(SOff(x.V.T), lo), n)), T: types.Typ[types.String]}
	case "string":
		argn(1)
		x := ev.eval(e.Args[0])
		if x.V.T.Sort == SSlice {
			h := fc.leafHeap(ev.cur, SInt)
			return TV{V: scalar(app(SStr, "mkstr", Select(h, SArr(x.V.T)), SOff(x.V.T), SLen(x.V.T))), T: types.Typ[types.String]}
		}
		ev.fail("string() of %s", x.T)
	}
	// pure spec function
	if p := ev.lookupPure(e.Fn); p != nil {
		if len(p.PureParams) != len(e.Args) {
			ev.fail("pure %s expects %d arguments", e.Fn, len(p.PureParams))
		}
		if ev.depth > 40 {
			ev.fail("pure function expansion too deep (recursion?) in %s", e.Fn)
		}
		if p.Kind == "abstract" {
			return ev.evalAbstract(p, e)
		}
		sub := *ev
		sub.depth++
		sub.fr = nil
		sub.binds = map[string]TV{}
		if p.Pkg != "" {
			if tp := fc.eng.typesPkg(p.Pkg); tp != nil {
				sub.pkg = tp
			}
		}
		for i, pp := range p.PureParams {
			a := ev.eval(e.Args[i])
			pt := sub.tryResolveType(pp.Type, a.T)
			if a.V.T == nil && a.V.Fs == nil && a.T == nil { // nil literal
				s, _ := leafSort(pt)
				a = TV{V: scalar(fc.zero(s))}
			}
			a.T = pt
			sub.binds[pp.Name] = a
		}
		r := sub.eval(p.PureBody)
		if p.PureRet != "" && p.PureRet != "bool" && p.PureRet != "mathint" {
			r.T = sub.resolveType(p.PureRet)
		}
		return r
	}
	ev.fail("unknown function %s in spec", e.Fn)
	return TV{}
}

// evalAbstract applies an uninterpreted spec function.
func (ev *EvalCtx) evalAbstract(p *Block, e ECall) TV {
	fc := ev.fc
	sub := *ev
	if p.Pkg != "" {
		if tp := fc.eng.typesPkg(p.Pkg); tp != nil {
			sub.pkg = tp
		}
	}
	var sorts []Sort
	var args []*Term
	for i, pp := range p.PureParams {
		a := ev.eval(e.Args[i])
		var s Sort
		if pp.Type == "mathint" {
			s = SInt
		} else {
			pt := sub.resolveType(pp.Type)
			var ok bool
			s, ok = leafSort(pt)
			if !ok {
				// aggregate parameter: one argument per leaf
				if a.V.T != nil {
					ev.fail("abstract %s: argument %d should be an aggregate", p.Name, i)
				}
				for _, l := range flatten(a.V, nil) {
					sorts = append(sorts, l.Sort)
					args = append(args, l)
				}
				continue
			}
			if a.V.T == nil && a.V.Fs == nil && a.T == nil {
				a = TV{V: scalar(fc.zero(s))}
			}
		}
		if a.V.T == nil || a.V.T.Sort != s {
			ev.fail("abstract %s: argument %d has the wrong sort", p.Name, i)
		}
		sorts = append(sorts, s)
		args = append(args, a.V.T)
	}
	var rs Sort = SBool
	var rt types.Type
	switch p.PureRet {
	case "bool":
		rs = SBool
		rt = types.Typ[types.Bool]
	case "":
		rs = SBool
	case "mathint":
		rs = SInt
	default:
		rt = sub.resolveType(p.PureRet)
		s, ok := leafSort(rt)
		if !ok {
			ev.fail("abstract function %s must return a scalar", p.Name)
		}
		rs = s
	}
	name := "abs_" + sanitize(p.Name)
	fc.sc.DeclFun(name, sorts, rs)
	r := app(rs, name, args...)
	if rt != nil {
		return TV{V: ev.typed(scalar(r), rt), T: rt}
	}
	return TV{V: scalar(r)}
}

func refObj(x TV) *Term {
	if x.V.T == nil {
		return nil
	}
	switch x.V.T.Sort {
	case SPtr:
		return PObj(x.V.T)
	case SSlice:
		return SArr(x.V.T)
	case SInt:
		return x.V.T // map / chan
	}
	return nil
}

func (ev *EvalCtx) lookupPure(name string) *Block {
	db := ev.fc.eng.db
	if ev.pkg != nil {
		if p, ok := db.Pures[ev.pkg.Path()+"."+name]; ok {
			return p
		}
	}
	if p, ok := db.Pures[name]; ok {
		return p
	}
	// pkgname.Func
	if k := strings.Index(name, "."); k > 0 {
		for key, p := range db.Pures {
			if strings.HasSuffix(key, "/"+name) || key == name {
				return p
			}
		}
	}
	return nil
}

// ghostMap returns the current term of ghost counter map `name` (sort from its declaration, or from the keys).
func (ev *EvalCtx) ghostMap(name string, keys []*Term) *Term {
	return ev.fc.ghostMapIn(ev.cur, name, keys)
}

func (fc *FnCtx) ghostMapSort(name string, keys []*Term) Sort {
	var ks []Sort
	if decl, ok := fc.eng.db.Ghosts[name]; ok {
		for _, d := range decl {
			switch d {
			case "string":
				ks = append(ks, SStr)
			case "mathint", "int":
				ks = append(ks, SInt)
			case "iface", "any":
				ks = append(ks, SIface)
			case "ptr":
				ks = append(ks, SPtr)
			default:
				panic(evalErr{"ghost map " + name + ": unsupported key type " + d})
			}
		}
	} else {
		for _, k := range keys {
			ks = append(ks, k.Sort)
		}
	}
	srt := SInt
	for i := len(ks) - 1; i >= 0; i-- {
		srt = ArrSort(ks[i], srt)
	}
	return srt
}

func (fc *FnCtx) ghostMapIn(st *State, name string, keys []*Term) *Term {
	return fc.ghost(st, "gmap:"+name, fc.ghostMapSort(name, keys))
}

// seenArray returns the ghost `seen` set of the (unique) active map range whose key sort is s.
func (ev *EvalCtx) seenArray(s Sort, hint string) *Term {
	var found *Term
	n := 0
	for k, g := range ev.cur.ghosts {
		if strings.HasPrefix(k, "seen:") && g.Sort == ArrSort(s, SBool) {
			if ev.fr != nil && ev.at != nil {
				// only ranges whose loop contains / is headed by `at`
				if !ev.fr.rangeActiveAt(k, ev.at) {
					continue
				}
			}
			found = g
			n++
		}
	}
	if n != 1 {
		ev.fail("seen(): %d candidate map ranges with key sort %s", n, s)
	}
	return found
}

// ---------------------------------------------------------------------------------------------
// modifies clauses
// ---------------------------------------------------------------------------------------------

type locItem struct {
	kind   string // loc | row | map | any | ghost
	obj    *Term
	slot   *Term
	width  int64
	leaves []Leaf // for loc: leaves relative to slot; for row: the leaf sorts to havoc (Off ignored)
	mapT   *types.Map
	ghost  string
	allSorts bool
}

func (ev *EvalCtx) evalLocs(locs []Expr) []locItem {
	var out []locItem
	for _, e := range locs {
		out = append(out, ev.evalLoc(e)...)
	}
	return out
}

func (ev *EvalCtx) evalLoc(e Expr) []locItem {
	fc := ev.fc
	ti := fc.eng.ti
	switch e := e.(type) {
	case EIdent:
		switch e.Name {
		case "fresh", "nothing":
			return nil
		case "anything":
			return []locItem{{kind: "any"}}
		case "anyold":
			return []locItem{{kind: "any-old"}}
		}
	case EStar:
		x := ev.eval(e.X)
		switch u := x.T.Underlying().(type) {
		case *types.Slice:
			return []locItem{{kind: "row", obj: SArr(x.V.T), leaves: ti.LayoutOf(u.Elem()).Leaves}}
		case *types.Map:
			return []locItem{{kind: "map", obj: x.V.T, mapT: u}}
		}
		ev.fail("[*] on %s", x.T)
	case ECall:
		switch e.Fn {
		case "all":
			x := ev.eval(e.Args[0])
			o := refObj(x)
			if o == nil {
				ev.fail("all() of non-reference")
			}
			return []locItem{{kind: "row", obj: o, allSorts: true}}
		case "ghost":
			id := e.Args[0].(EIdent)
			return []locItem{{kind: "ghost", ghost: id.Name}}
		case "gmap":
			id := e.Args[0].(EIdent)
			return []locItem{{kind: "ghost", ghost: "gmap:" + id.Name}}
		case "anymapof":
			// anymapof(m): every inner map of the map-of-maps m (all maps of m's element type)
			x := ev.eval(e.Args[0])
			mt, ok := x.T.Underlying().(*types.Map)
			if !ok {
				ev.fail("anymapof() needs a map of maps")
			}
			it, ok := mt.Elem().Underlying().(*types.Map)
			if !ok {
				ev.fail("anymapof() needs a map of maps")
			}
			return []locItem{{kind: "maptype", mapT: it}}
		}
	case EIndex:
		x := ev.eval(e.X)
		if mt, ok := x.T.Underlying().(*types.Map); ok {
			return []locItem{{kind: "map", obj: x.V.T, mapT: mt}}
		}
	}
	tv := ev.eval(e)
	if tv.Addr == nil {
		ev.fail("modifies: %s is not a location", exprString(e))
	}
	lay := ti.LayoutOf(tv.T)
	return []locItem{{kind: "loc", obj: PObj(tv.Addr), slot: PSlot(tv.Addr), width: lay.Width, leaves: lay.Leaves}}
}

// covers returns the condition under which allowed item a covers written item b.
func covers(a, b locItem) *Term {
	switch a.kind {
	case "any", "any-old":
		// memory only: ghost effects are never implied (a caller havocs exactly the ghosts a callee lists)
		if b.kind == "ghost" {
			return TFalse
		}
		return TTrue
	case "row":
		if b.kind == "row" || b.kind == "loc" {
			return Eq(a.obj, b.obj)
		}
	case "loc":
		if b.kind == "loc" {
			return And(Eq(a.obj, b.obj), Le(a.slot, b.slot), Le(Add(b.slot, IntLit(b.width)), Add(a.slot, IntLit(a.width))))
		}
	case "map":
		if b.kind == "map" {
			if a.mapT != nil && b.mapT != nil && mapTypeName(a.mapT) != mapTypeName(b.mapT) {
				return TFalse
			}
			return Eq(a.obj, b.obj)
		}
	case "maptype":
		if (b.kind == "map" || b.kind == "maptype") && b.mapT != nil && mapTypeName(a.mapT) == mapTypeName(b.mapT) {
			return TTrue
		}
	case "ghost":
		if b.kind == "ghost" && a.ghost == b.ghost {
			return TTrue
		}
	}
	return TFalse
}

// havocItems forgets everything the items may have changed.
func (fc *FnCtx) havocItems(st *State, items []locItem) {
	ti := fc.eng.ti
	_ = ti
	for _, it := range items {
		switch it.kind {
		case "loc":
			for _, lf := range it.leaves {
				h := fc.leafHeap(st, lf.Sort)
				fv := fc.sc.Fresh("hv", lf.Sort)
				fc.setHeap(st, leafHeapName(lf.Sort), HSto(h, it.obj, Add(it.slot, IntLit(lf.Off)), fv))
			}
		case "row":
			sorts := map[Sort]bool{}
			if it.allSorts {
				for _, s := range []Sort{SInt, SBool, SStr, SPtr, SSlice, SIface, SFlt} {
					sorts[s] = true
				}
			}
			for _, lf := range it.leaves {
				sorts[lf.Sort] = true
			}
			for _, s := range []Sort{SInt, SBool, SStr, SPtr, SSlice, SIface, SFlt} {
				if !sorts[s] {
					continue
				}
				h := fc.leafHeap(st, s)
				fv := fc.sc.Fresh("hvrow", ArrSort(SInt, s))
				fc.wfHeapFact(fv, fc.hvBound)
				fc.setHeap(st, leafHeapName(s), Store(h, it.obj, fv))
			}
		case "map":
			fc.havocMap(st, it.obj, it.mapT)
		case "maptype":
			p, pn := fc.mapP(st, it.mapT)
			st.heaps[pn] = fc.sc.Fresh("hvMP", p.Sort)
			lay := fc.eng.ti.LayoutOf(it.mapT.Elem())
			for i, v := range fc.mapVs(st, it.mapT) {
				nh := fc.sc.Fresh("hvMV", v.h.Sort)
				fc.wfHeapFact(nh, fc.hvBound)
				if isRefInt(lay.Leaves[i].Type) {
					fc.wfRefIntFact(nh, fc.hvBound, true)
				}
				st.heaps[v.name] = nh
			}
			c, cn := fc.mapCT(st, it.mapT)
			st.heaps[cn] = fc.sc.Fresh("hvMC", c.Sort)
		case "ghost":
			srt := SInt
			if strings.HasPrefix(it.ghost, "gmap:") {
				srt = fc.ghostMapSort(strings.TrimPrefix(it.ghost, "gmap:"), nil)
			}
			st.ghosts[it.ghost] = fc.sc.Fresh("g_"+it.ghost, srt)
		case "any-old":
			fc.epochs++
			st.hEpoch = fc.epochs
			// everything that existed when the verified function was entered may change; objects the
			// function allocated itself (its local cells, closures, fresh structures) are out of the callee's reach
			for _, s := range []Sort{SInt, SBool, SStr, SPtr, SSlice, SIface, SFlt} {
				old := fc.leafHeap(st, s)
				nh := fc.sc.Fresh("hvold", HeapSort(s))
				fc.wfHeapFact(nh, fc.hvBound)
				fc.sc.Assert(mk(SBool, fmt.Sprintf("(forall ((o!q Int)) (! (=> (>= o!q %s) (= (select %s o!q) (select %s o!q))) :pattern ((select %s o!q))))", fc.next0.S, nh.S, old.S, nh.S)))
				st.heaps[leafHeapName(s)] = nh
			}
			for name, srt := range fc.heapSorts {
				if strings.HasPrefix(name, "M") {
					old := fc.heap(st, name, srt)
					nh := fc.sc.Fresh("hvold", srt)
					fc.wfHeapFact(nh, fc.hvBound)
					fc.sc.Assert(mk(SBool, fmt.Sprintf("(forall ((o!q Int)) (! (=> (>= o!q %s) (= (select %s o!q) (select %s o!q))) :pattern ((select %s o!q))))", fc.next0.S, nh.S, old.S, nh.S)))
					st.heaps[name] = nh
				}
			}
		case "any":
			fc.epochs++
			st.hEpoch = fc.epochs
			for _, s := range []Sort{SInt, SBool, SStr, SPtr, SSlice, SIface, SFlt} {
				st.heaps[leafHeapName(s)] = fc.sc.Fresh("hvall", HeapSort(s))
				fc.heapSorts[leafHeapName(s)] = HeapSort(s)
				fc.wfHeapFact(st.heaps[leafHeapName(s)], fc.hvBound)
			}
			for name, srt := range fc.heapSorts {
				if strings.HasPrefix(name, "M") {
					st.heaps[name] = fc.sc.Fresh("hvall", srt)
					fc.wfHeapFact(st.heaps[name], fc.hvBound)
				}
			}
		}
	}
}
