package main

import (
	"fmt"
	"go/types"
	"math/big"
)

// Val is a symbolic Go value: a scalar leaf (T) or an aggregate (struct fields / tuple elements).
type Val struct {
	T  *Term
	Fs []Val
}

func scalar(t *Term) Val { return Val{T: t} }

type unsupported struct{ msg string }

func unsup(format string, args ...any) {
	panic(unsupported{fmt.Sprintf(format, args...)})
}

// Leaf describes one scalar cell of a Go type laid out in the heap.
type Leaf struct {
	Off  int64 // offset relative to the start of the value
	Sort Sort
	Type types.Type // Go type of the leaf
}

type Layout struct {
	Leaves []Leaf
	Width  int64
}

type TypeInfo struct {
	embedded map[string]bool // struct types that occur by value inside another type (interior pointers possible)
	visited  map[types.Type]bool
	arrRanges map[string][][2]int64
	layouts  map[string]*Layout
	typeIdx  map[string]int
	idxType  []types.Type
	sizes    types.Sizes
}

func NewTypeInfo() *TypeInfo {
	return &TypeInfo{embedded: map[string]bool{}, visited: map[types.Type]bool{}, layouts: map[string]*Layout{}, typeIdx: map[string]int{}, sizes: types.SizesFor("gc", "amd64")}
}

// TagOf returns a positive integer identifying the dynamic type t.
func canonType(t types.Type) types.Type {
	t = types.Unalias(t)
	if b, ok := t.(*types.Basic); ok {
		switch b.Kind() {
		case types.Byte:
			return types.Typ[types.Uint8]
		case types.Rune:
			return types.Typ[types.Int32]
		}
		return types.Typ[b.Kind()]
	}
	if p, ok := t.(*types.Pointer); ok {
		if e := canonType(p.Elem()); e != p.Elem() {
			return types.NewPointer(e)
		}
	}
	if s, ok := t.(*types.Slice); ok {
		if e := canonType(s.Elem()); e != s.Elem() {
			return types.NewSlice(e)
		}
	}
	return t
}

func (ti *TypeInfo) TagOf(t types.Type) int {
	t = canonType(t)
	k := types.TypeString(t, nil)
	if i, ok := ti.typeIdx[k]; ok {
		return i
	}
	i := len(ti.idxType) + 1
	ti.typeIdx[k] = i
	ti.idxType = append(ti.idxType, t)
	return i
}

// BaseSlot is the slot at which a freshly allocated value of type t starts. Struct types get a
// private negative range so that fields of different struct types never share a slot number, and
// never collide with array elements (which live at slots >= 0).
func (ti *TypeInfo) BaseSlot(t types.Type) int64 {
	if _, ok := t.Underlying().(*types.Struct); ok {
		return -int64(ti.TagOf(t)) * 4096
	}
	return 0
}

func leafSort(t types.Type) (Sort, bool) {
	switch u := t.Underlying().(type) {
	case *types.Basic:
		switch {
		case u.Info()&types.IsInteger != 0:
			return SInt, true
		case u.Info()&types.IsBoolean != 0:
			return SBool, true
		case u.Info()&types.IsString != 0:
			return SStr, true
		case u.Info()&types.IsFloat != 0:
			return SFlt, true
		case u.Kind() == types.UnsafePointer:
			return SPtr, true
		case u.Kind() == types.UntypedNil:
			return SPtr, true
		}
		return "", false
	case *types.Pointer:
		return SPtr, true
	case *types.Slice:
		return SSlice, true
	case *types.Interface:
		return SIface, true
	case *types.Map, *types.Chan, *types.Signature:
		return SInt, true
	case *types.TypeParam:
		return SIface, true
	}
	return "", false
}

func (ti *TypeInfo) LayoutOf(t types.Type) *Layout {
	k := types.TypeString(t, nil)
	if l, ok := ti.layouts[k]; ok {
		return l
	}
	l := &Layout{}
	ti.layouts[k] = l // (recursive types go through pointers, so no cycle here)
	if s, ok := leafSort(t); ok {
		l.Leaves = []Leaf{{0, s, t}}
		l.Width = 1
		return l
	}
	switch u := t.Underlying().(type) {
	case *types.Struct:
		var off int64
		for i := 0; i < u.NumFields(); i++ {
			fl := ti.LayoutOf(u.Field(i).Type())
			for _, lf := range fl.Leaves {
				l.Leaves = append(l.Leaves, Leaf{off + lf.Off, lf.Sort, lf.Type})
			}
			off += fl.Width
		}
		l.Width = off
		if l.Width >= 4096 {
			unsup("struct too large: %s", k)
		}
	case *types.Array:
		el := ti.LayoutOf(u.Elem())
		n := u.Len()
		if n > 64 {
			unsup("array type too large for flattening: %s", k)
		}
		for i := int64(0); i < n; i++ {
			for _, lf := range el.Leaves {
				l.Leaves = append(l.Leaves, Leaf{i*el.Width + lf.Off, lf.Sort, lf.Type})
			}
		}
		l.Width = n * el.Width
	case *types.Tuple:
		var off int64
		for i := 0; i < u.Len(); i++ {
			fl := ti.LayoutOf(u.At(i).Type())
			for _, lf := range fl.Leaves {
				l.Leaves = append(l.Leaves, Leaf{off + lf.Off, lf.Sort, lf.Type})
			}
			off += fl.Width
		}
		l.Width = off
	default:
		unsup("type not modelled: %s", k)
	}
	return l
}

// FieldOffset returns the leaf offset of field i inside struct type st.
func (ti *TypeInfo) FieldOffset(st *types.Struct, i int) int64 {
	var off int64
	for j := 0; j < i; j++ {
		off += ti.LayoutOf(st.Field(j).Type()).Width
	}
	return off
}

func zeroTerm(s Sort) *Term {
	switch s {
	case SInt:
		return IntLit(0)
	case SBool:
		return TFalse
	case SPtr:
		return NilPtr
	case SSlice:
		return NilSlice
	case SIface:
		return NilIface
	}
	return nil
}

// intRange returns the value range of an integer type (ok=false for non-integers).
func intRange(t types.Type, sizes types.Sizes) (lo, hi *big.Int, ok bool) {
	b, isB := t.Underlying().(*types.Basic)
	if !isB || b.Info()&types.IsInteger == 0 {
		return nil, nil, false
	}
	if b.Info()&types.IsUntyped != 0 {
		return nil, nil, false
	}
	bits := uint(sizes.Sizeof(t) * 8)
	one := big.NewInt(1)
	if b.Info()&types.IsUnsigned != 0 {
		return big.NewInt(0), new(big.Int).Sub(new(big.Int).Lsh(one, bits), one), true
	}
	h := new(big.Int).Lsh(one, bits-1)
	return new(big.Int).Neg(h), new(big.Int).Sub(h, one), true
}

// NoteType walks t and records every struct type that occurs by value inside a struct, array,
// slice, map or channel. Pointers to all other struct types always point at the start of a
// standalone allocation (Go's type safety), which is what gives field/element disjointness.
func (ti *TypeInfo) NoteType(t types.Type) {
	if t == nil || ti.visited[t] {
		return
	}
	ti.visited[t] = true
	inner := func(e types.Type) {
		if _, ok := e.Underlying().(*types.Struct); ok {
			ti.embedded[types.TypeString(e, nil)] = true
		}
		if a, ok := e.Underlying().(*types.Array); ok {
			// array by value inside something: its element structs are interior too
			if _, ok := a.Elem().Underlying().(*types.Struct); ok {
				ti.embedded[types.TypeString(a.Elem(), nil)] = true
			}
		}
		ti.NoteType(e)
	}
	switch u := t.(type) {
	case *types.Named:
		ti.NoteType(u.Underlying())
		for i := 0; i < u.NumMethods(); i++ {
			ti.NoteType(u.Method(i).Type())
		}
		if ta := u.TypeArgs(); ta != nil {
			for i := 0; i < ta.Len(); i++ {
				ti.NoteType(ta.At(i))
			}
		}
	case *types.Alias:
		ti.NoteType(types.Unalias(u))
	case *types.Pointer:
		ti.NoteType(u.Elem())
	case *types.Struct:
		for i := 0; i < u.NumFields(); i++ {
			inner(u.Field(i).Type())
		}
	case *types.Array:
		inner(u.Elem())
	case *types.Slice:
		inner(u.Elem())
	case *types.Map:
		inner(u.Key())
		inner(u.Elem())
	case *types.Chan:
		inner(u.Elem())
	case *types.Signature:
		for i := 0; i < u.Params().Len(); i++ {
			ti.NoteType(u.Params().At(i).Type())
		}
		for i := 0; i < u.Results().Len(); i++ {
			ti.NoteType(u.Results().At(i).Type())
		}
		if u.Recv() != nil {
			ti.NoteType(u.Recv().Type())
		}
	case *types.Tuple:
		for i := 0; i < u.Len(); i++ {
			ti.NoteType(u.At(i).Type())
		}
	case *types.Interface:
		for i := 0; i < u.NumMethods(); i++ {
			ti.NoteType(u.Method(i).Type())
		}
	}
}

// ArrayFieldRanges returns, for slices with element type elem, the slot ranges [lo,hi) of array fields of
// struct types (relative to nothing: absolute slots, since struct bases are global constants) into which
// such a slice may point. Everything else a slice can point to lives at slots >= 0.
func (ti *TypeInfo) ArrayFieldRanges(elem types.Type) [][2]int64 {
	key := types.TypeString(elem, nil)
	if r, ok := ti.arrRanges[key]; ok {
		return r
	}
	var out [][2]int64
	seen := map[string]bool{}
	for t := range ti.visited {
		st, ok := t.Underlying().(*types.Struct)
		if !ok {
			continue
		}
		tk := types.TypeString(t, nil)
		if seen[tk] {
			continue
		}
		seen[tk] = true
		func() {
			defer func() { recover() }() // types that cannot be laid out are never allocated by verified code
			base := ti.BaseSlot(t)
			ti.collectArrays(st, base, key, &out)
		}()
	}
	if ti.arrRanges == nil {
		ti.arrRanges = map[string][][2]int64{}
	}
	ti.arrRanges[key] = out
	return out
}

func (ti *TypeInfo) collectArrays(st *types.Struct, base int64, elemKey string, out *[][2]int64) {
	off := base
	for i := 0; i < st.NumFields(); i++ {
		ft := st.Field(i).Type()
		w := ti.LayoutOf(ft).Width
		switch u := ft.Underlying().(type) {
		case *types.Array:
			if types.TypeString(u.Elem(), nil) == elemKey {
				*out = append(*out, [2]int64{off, off + w})
			}
		case *types.Struct:
			ti.collectArrays(u, off, elemKey, out)
		}
		off += w
	}
}

// Standalone reports whether every pointer to struct type t points at the start of its own allocation.
func (ti *TypeInfo) Standalone(t types.Type) bool {
	if _, ok := t.Underlying().(*types.Struct); !ok {
		return false
	}
	return !ti.embedded[types.TypeString(t, nil)]
}
