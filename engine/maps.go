package main

import (
	"fmt"
	"go/types"
	"strings"

	"golang.org/x/tools/go/ssa"
)

// Maps: a map value is an object id (Int, 0 = nil map). Per key sort K:
//   MP:K   : Array Int (Array K Bool)   presence
//   MV:K:V : Array Int (Array K V)      value (V a leaf sort; multi-leaf values use MV:K:V#i)
//   MC     : Array Int Int              cardinality

func (fc *FnCtx) mapKeySort(mt *types.Map) Sort {
	s, ok := leafSort(mt.Key())
	if !ok {
		unsup("map key type %s", mt.Key())
	}
	return s
}

// map heaps are per Go map type: maps of different types can never alias (Burstall-style separation)
func mapTypeName(mt *types.Map) string { return types.TypeString(canonType(mt), nil) }

func (fc *FnCtx) mapP(st *State, mt *types.Map) (*Term, string) {
	k := fc.mapKeySort(mt)
	name := "MP:" + mapTypeName(mt)
	return fc.heap(st, name, ArrSort(SInt, ArrSort(k, SBool))), name
}

func (fc *FnCtx) mapCT(st *State, mt *types.Map) (*Term, string) {
	name := "MC:" + mapTypeName(mt)
	return fc.heap(st, name, ArrSort(SInt, SInt)), name
}

type mapVHeap struct {
	name string
	h    *Term
	sort Sort
}

func (fc *FnCtx) mapVs(st *State, mt *types.Map) []mapVHeap {
	k := fc.mapKeySort(mt)
	lay := fc.eng.ti.LayoutOf(mt.Elem())
	var out []mapVHeap
	for i, lf := range lay.Leaves {
		name := fmt.Sprintf("MV:%s#%d", mapTypeName(mt), i)
		_, existed := fc.initHeaps[name]
		h := fc.heap(st, name, ArrSort(SInt, ArrSort(k, lf.Sort)))
		if !existed {
			if _, isInit := fc.initHeaps[name]; isInit && isRefInt(lf.Type) {
				fc.wfRefIntFact(fc.initHeaps[name], fc.next0, true)
			}
		}
		out = append(out, mapVHeap{name, h, lf.Sort})
	}
	return out
}

func (fc *FnCtx) mapHas(st *State, m *Term, mt *types.Map, k Val) *Term {
	p, _ := fc.mapP(st, mt)
	return And(Ne(m, IntLit(0)), Select(Select(p, m), k.T))
}

// mapGet returns m[k] with Go semantics (zero value when absent).
func (fc *FnCtx) mapGet(st *State, m *Term, mt *types.Map, k Val) Val {
	has := fc.mapHas(st, m, mt, k)
	vs := fc.mapVs(st, mt)
	leaves := make([]*Term, len(vs))
	for i, v := range vs {
		leaves[i] = Ite(has, Select(Select(v.h, m), k.T), fc.zero(v.sort))
	}
	pos := 0
	return fc.unflatten(mt.Elem(), leaves, &pos)
}

func (fc *FnCtx) mapLen(st *State, m *Term, mt *types.Map) *Term {
	c, _ := fc.mapCT(st, mt)
	if strings.Contains(m.S, "!b") {
		// under a quantifier: no named constant, no cardinality facts
		return Ite(Eq(m, IntLit(0)), IntLit(0), Select(c, m))
	}
	n := fc.sc.Define("maplen", Ite(Eq(m, IntLit(0)), IntLit(0), Select(c, m)))
	// cardinality facts: n >= 0; n = 0 <=> no key present
	p, _ := fc.mapP(st, mt)
	ks := fc.mapKeySort(mt)
	row := fc.sc.Define("maprow", Select(p, m))
	fc.sc.Assert(Ge(n, IntLit(0)))
	fc.sc.Assert(mk(SBool, fmt.Sprintf("(forall ((k!q %s)) (! (=> (and (not (= %s 0)) (select %s k!q)) (>= %s 1)) :pattern ((select %s k!q))))", ks, m.S, row.S, n.S, row.S)))
	w := fc.sc.Fresh("mapwit", ks)
	fc.sc.Assert(Implies(Ge(n, IntLit(1)), And(Ne(m, IntLit(0)), Select(row, w))))
	return n
}

func (fc *FnCtx) havocMap(st *State, m *Term, mt *types.Map) {
	p, pn := fc.mapP(st, mt)
	ks := fc.mapKeySort(mt)
	fc.setHeap(st, pn, Store(p, m, fc.sc.Fresh("hvP", ArrSort(ks, SBool))))
	lay := fc.eng.ti.LayoutOf(mt.Elem())
	for i, v := range fc.mapVs(st, mt) {
		row := fc.sc.Fresh("hvV", ArrSort(ks, v.sort))
		fc.wfHeapFact(row, fc.hvBound)
		if isRefInt(lay.Leaves[i].Type) {
			fc.wfRefIntFact(row, fc.hvBound, false)
		}
		fc.setHeap(st, v.name, Store(v.h, m, row))
	}
	c, cn := fc.mapCT(st, mt)
	fc.setHeap(st, cn, Store(c, m, fc.sc.Fresh("hvC", SInt)))
}

func (fr *Frame) allocMap(st *State, mt *types.Map) *Term {
	fc := fr.fc
	obj := fr.allocRaw(st)
	p, pn := fc.mapP(st, mt)
	ks := fc.mapKeySort(mt)
	fc.setHeap(st, pn, Store(p, obj, ConstArr(ArrSort(ks, SBool), TFalse)))
	c, cn := fc.mapCT(st, mt)
	fc.setHeap(st, cn, Store(c, obj, IntLit(0)))
	// make sure value heaps exist
	fc.mapVs(st, mt)
	fc.sc.DeclFun("maptype", []Sort{SInt}, SInt)
	fc.sc.Assert(Eq(app(SInt, "maptype", obj), IntLit(int64(fc.eng.ti.TagOf(mt)))))
	return obj
}

func (fr *Frame) execLookup(in *ssa.Lookup, st *State) {
	fc := fr.fc
	switch xt := in.X.Type().Underlying().(type) {
	case *types.Map:
		m := fr.val(in.X).T
		k := fr.val(in.Index)
		fr.guardCheck(st, in, in.X, false)
		v := fc.mapGet(st, m, xt, k)
		v = fr.nameVal(in.Name(), v)
		fc.assume(st, fc.typeFacts(st, v, xt.Elem()))
		if in.CommaOk {
			fr.env[in] = Val{Fs: []Val{v, scalar(fc.sc.Define("has", fc.mapHas(st, m, xt, k)))}}
		} else {
			fr.env[in] = v
		}
	case *types.Basic:
		s := fr.val(in.X).T
		idx := fr.val(in.Index).T
		fc.oblige(st, "bounds", fr.path, And(Le(IntLit(0), idx), Lt(idx, StrLen(s))), fr.pos(in), "string index in range")
		r := fc.sc.Define(in.Name(), app(SInt, "strbyte", s, idx))
		fc.assume(st, And(Le(IntLit(0), r), Le(r, IntLit(255))))
		fr.env[in] = scalar(r)
	default:
		unsup("lookup on %s", in.X.Type())
	}
}

func (fr *Frame) execMapUpdate(in *ssa.MapUpdate, st *State) {
	fc := fr.fc
	mt := in.Map.Type().Underlying().(*types.Map)
	m := fr.val(in.Map).T
	k := fr.val(in.Key)
	v := fr.val(in.Value)
	fc.oblige(st, "nil", fr.path, Ne(m, IntLit(0)), fr.pos(in), "assignment to entry in nil map")
	fr.checkWrite(st, in, locItem{kind: "map", obj: m, mapT: mt}, "map update")
	fr.guardCheck(st, in, in.Map, true)
	fr.checkRangeInsert(st, in, m, k)
	fc.mapStore(st, m, mt, k, v)
}

func (fc *FnCtx) mapStore(st *State, m *Term, mt *types.Map, k, v Val) {
	p, pn := fc.mapP(st, mt)
	had := Select(Select(p, m), k.T)
	c, cn := fc.mapCT(st, mt)
	fc.setHeap(st, cn, Store(c, m, Add(Select(c, m), Ite(had, IntLit(0), IntLit(1)))))
	fc.setHeap(st, pn, Store(p, m, Store(Select(p, m), k.T, TTrue)))
	leaves := flatten(v, nil)
	for i, vh := range fc.mapVs(st, mt) {
		fc.setHeap(st, vh.name, Store(vh.h, m, Store(Select(vh.h, m), k.T, leaves[i])))
	}
}

func (fc *FnCtx) mapDelete(st *State, m *Term, mt *types.Map, k Val) {
	p, pn := fc.mapP(st, mt)
	had := And(Ne(m, IntLit(0)), Select(Select(p, m), k.T))
	c, cn := fc.mapCT(st, mt)
	fc.setHeap(st, cn, Store(c, m, Sub(Select(c, m), Ite(had, IntLit(1), IntLit(0)))))
	fc.setHeap(st, pn, Store(p, m, Store(Select(p, m), k.T, TFalse)))
}

// ---------------------------------------------------------------------------------------------
// range over maps: ghost set `seen`
// ---------------------------------------------------------------------------------------------

func rangeKey(in *ssa.Range) string { return "seen:" + in.Name() + "@" + in.Parent().Name() }

func (fr *Frame) execRange(in *ssa.Range, st *State) {
	fc := fr.fc
	switch xt := in.X.Type().Underlying().(type) {
	case *types.Map:
		ks := fc.mapKeySort(xt)
		st.ghosts[rangeKey(in)] = ConstArr(ArrSort(ks, SBool), TFalse)
		st.ghosts["seencnt:"+rangeKey(in)] = IntLit(0)
		fr.env[in] = fr.val(in.X)
		// remember the key set and cardinality at the start of the iteration (for the count facts)
		m := fr.val(in.X).T
		p, _ := fc.mapP(st, xt)
		c, _ := fc.mapCT(st, xt)
		fr.rangeStart[in] = [2]*Term{fc.sc.Define("row0", Select(p, m)), fc.sc.Define("card0", Ite(Eq(m, IntLit(0)), IntLit(0), Select(c, m)))}
		fr.guardCheck(st, in, in.X, false)
	default:
		unsup("range over %s", in.X.Type())
	}
}

func (fr *Frame) execNext(in *ssa.Next, st *State) {
	fc := fr.fc
	if in.IsString {
		unsup("range over string")
	}
	rng := in.Iter.(*ssa.Range)
	mt := rng.X.Type().Underlying().(*types.Map)
	m := fr.val(rng).T
	fr.guardCheck(st, in, rng.X, false)
	ks := fc.mapKeySort(mt)
	key := rangeKey(rng)
	seen, okk := st.ghosts[key]
	if !okk {
		unsup("range iterator state lost")
	}
	p, _ := fc.mapP(st, mt)
	row := fc.sc.Define("rangerow", Select(p, m))
	k0 := fc.sc.Fresh("rk", ks)
	ok := fc.sc.Fresh("rok", SBool)
	fc.assume(st, Implies(ok, And(Ne(m, IntLit(0)), Select(row, k0), Not(Select(seen, k0)))))
	// exhausted: every present key has been seen
	fc.assume(st, Implies(Not(ok), mk(SBool, fmt.Sprintf("(forall ((k!q %s)) (! (=> (and (not (= %s 0)) (select %s k!q)) (select %s k!q)) :pattern ((select %s k!q)) :pattern ((select %s k!q))))",
		ks, m.S, row.S, seen.S, row.S, seen.S))))
	st.ghosts[key] = fc.sc.Define("seen", Ite(ok, Store(seen, k0, TTrue), seen))
	// number of keys visited so far: while the key set is the one the iteration started with, it is
	// below the cardinality, and equal to it when the iteration is exhausted
	if rs, have := fr.rangeStart[rng]; have {
		cnt := st.ghosts["seencnt:"+key]
		if cnt != nil {
			same := Eq(row, rs[0])
			fc.assume(st, And(Ge(cnt, IntLit(0)), Implies(same, And(Implies(ok, Lt(cnt, rs[1])), Implies(Not(ok), Eq(cnt, rs[1]))))))
			st.ghosts["seencnt:"+key] = fc.sc.Define("seencnt", Ite(ok, Add(cnt, IntLit(1)), cnt))
		}
	}
	tup := in.Type().(*types.Tuple)
	kv := scalar(k0)
	fc.assume(st, Implies(ok, fc.typeFacts(st, kv, mt.Key())))
	var vv Val
	if tup.At(2).Type() != nil && !isInvalid(tup.At(2).Type()) {
		vv = fc.mapGet(st, m, mt, kv)
		vv = fr.nameVal("rv", vv)
		fc.assume(st, Implies(ok, fc.typeFacts(st, vv, mt.Elem())))
	} else {
		vv = Val{Fs: []Val{}}
	}
	fr.env[in] = Val{Fs: []Val{scalar(ok), kv, vv}}
}

func isInvalid(t types.Type) bool {
	b, ok := t.(*types.Basic)
	return ok && b.Kind() == types.Invalid
}

// checkRangeInsert: inserting a possibly-new key into a map that is being ranged over is rejected
// (Go leaves it unspecified whether the new entry is visited).
func (fr *Frame) checkRangeInsert(st *State, in ssa.Instruction, m *Term, k Val) {
	var updT *types.Map
	if mu, ok := in.(*ssa.MapUpdate); ok {
		updT = mu.Map.Type().Underlying().(*types.Map)
	}
	// find active ranges (loops containing this instruction whose Range is over the same map value)
	for _, l := range fr.loops {
		if !l.blocks[in.Block()] {
			continue
		}
		for b := range l.blocks {
			for _, x := range b.Instrs {
				nx, ok := x.(*ssa.Next)
				if !ok || nx.IsString {
					continue
				}
				rng := nx.Iter.(*ssa.Range)
				rv, have := fr.env[rng]
				if !have {
					continue
				}
				mt := rng.X.Type().Underlying().(*types.Map)
				if updT != nil && mapTypeName(updT) != mapTypeName(mt) {
					continue // maps of different types are different objects
				}
				p, _ := fr.fc.mapP(st, mt)
				if p.Sort != ArrSort(SInt, ArrSort(k.T.Sort, SBool)) {
					continue
				}
				fr.fc.oblige(st, "range-insert", fr.path, Or(Ne(rv.T, m), Select(Select(p, m), k.T)), fr.pos(in),
					"no insertion of a new key into a map while ranging over it")
			}
		}
	}
}

// rangeActiveAt reports whether the range whose ghost key is `key` belongs to a loop that contains block at.
func (fr *Frame) rangeActiveAt(key string, at *ssa.BasicBlock) bool {
	for _, l := range fr.loops {
		if !l.blocks[at] {
			continue
		}
		for b := range l.blocks {
			for _, x := range b.Instrs {
				if nx, ok := x.(*ssa.Next); ok && !nx.IsString {
					if rangeKey(nx.Iter.(*ssa.Range)) == key {
						return true
					}
				}
			}
		}
	}
	return false
}

// ---------------------------------------------------------------------------------------------
// lock set ghost
// ---------------------------------------------------------------------------------------------

func (fc *FnCtx) heldSet(st *State) *Term {
	return fc.ghost(st, "held", ArrSort(SPtr, SBool))
}

func (fc *FnCtx) rheldSet(st *State) *Term {
	return fc.ghost(st, "rheld", ArrSort(SPtr, SBool))
}

func isMapHeap(name string) bool { return strings.HasPrefix(name, "M") }

// isRefInt: Go reference types that are modelled as Int object ids
func isRefInt(t types.Type) bool {
	switch t.Underlying().(type) {
	case *types.Map, *types.Chan:
		return true
	}
	return false
}

// wfRefIntFact: all values of an Int-sorted heap / row that holds map or channel references denote allocated objects.
func (fc *FnCtx) wfRefIntFact(h *Term, bound *Term, twoLevel bool) {
	if bound == nil {
		return
	}
	k1, inner := splitArr(h.Sort)
	if twoLevel {
		k2, _ := splitArr(inner)
		read := fmt.Sprintf("(select (select %s a!q) b!q)", h.S)
		fc.sc.Assert(mk(SBool, fmt.Sprintf("(forall ((a!q %s) (b!q %s)) (! (and (<= 0 %s) (< %s %s)) :pattern (%s)))", k1, k2, read, read, bound.S, read)))
		return
	}
	read := fmt.Sprintf("(select %s a!q)", h.S)
	fc.sc.Assert(mk(SBool, fmt.Sprintf("(forall ((a!q %s)) (! (and (<= 0 %s) (< %s %s)) :pattern (%s)))", k1, read, read, bound.S, read)))
}
