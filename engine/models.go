package main

import (
	"go/types"
	"strings"

	"golang.org/x/tools/go/ssa"
)

// Built-in (Go-coded) models of sync and sync/atomic: sequentially consistent atomic steps, ghost
// lock set. Everything here is part of the trusted base and listed in the evidence.

func (e *Engine) builtinModel(f *ssa.Function) string {
	k := funcKey(f)
	switch {
	case strings.HasPrefix(k, "sync/atomic."):
		return k
	case strings.HasPrefix(k, "(*sync/atomic."):
		return k
	case strings.HasPrefix(k, "(*sync.Mutex)."), strings.HasPrefix(k, "(*sync.RWMutex)."):
		return k
	case strings.HasPrefix(k, "(*sync.WaitGroup)."), strings.HasPrefix(k, "(*sync.Once)."):
		return k
	case strings.HasPrefix(k, "(*sync.Pool)."):
		return k
	}
	return ""
}

func (e *Engine) builtinModelPure(f *ssa.Function) bool {
	k := funcKey(f)
	if strings.Contains(k, "Load") && strings.Contains(k, "atomic") {
		return true
	}
	if strings.HasPrefix(k, "(*sync.Mutex).") || strings.HasPrefix(k, "(*sync.RWMutex).") || strings.HasPrefix(k, "(*sync.WaitGroup).") {
		return true // ghost state only
	}
	return false
}

func atomicWidthType(name string) types.Type {
	switch {
	case strings.Contains(name, "Int32"):
		return types.Typ[types.Int32]
	case strings.Contains(name, "Int64"):
		return types.Typ[types.Int64]
	case strings.Contains(name, "Uint32"):
		return types.Typ[types.Uint32]
	case strings.Contains(name, "Uint64"):
		return types.Typ[types.Uint64]
	case strings.Contains(name, "Uintptr"):
		return types.Typ[types.Uintptr]
	}
	return nil
}

func (fr *Frame) callModel(site ssa.Instruction, name string, f *ssa.Function, args []Val, st *State) []Val {
	fc := fr.fc
	fc.note("sync / sync/atomic operations are sequentially consistent atomic steps (built-in model)")
	switch {
	case strings.HasPrefix(name, "(*sync.Mutex).") || strings.HasPrefix(name, "(*sync.RWMutex)."):
		p := args[0].T
		op := name[strings.LastIndex(name, ".")+1:]
		h := fc.heldSet(st)
		switch op {
		case "Lock":
			notHeld := Not(Select(h, p))
			if strings.HasPrefix(name, "(*sync.RWMutex)") {
				notHeld = And(notHeld, Not(Select(fc.rheldSet(st), p)))
			}
			fc.oblige(st, "lock", fr.path, notHeld, fr.pos(site), "Lock: lock not already held by this goroutine (self-deadlock)")
			st.ghosts["held"] = fc.sc.Define("held", Store(h, p, TTrue))
			fr.interfere(site, p, st)
			fr.onLock(site, p, st)
		case "Unlock":
			fc.oblige(st, "lock", fr.path, Select(h, p), fr.pos(site), "Unlock: lock is held")
			fr.onUnlock(site, p, st)
			st.ghosts["held"] = fc.sc.Define("held", Store(h, p, TFalse))
			fr.noteReleased(site, p, st)
		case "RLock":
			rh := fc.rheldSet(st)
			fc.oblige(st, "lock", fr.path, Not(Select(h, p)), fr.pos(site), "RLock: write lock not held by this goroutine")
			st.ghosts["rheld"] = fc.sc.Define("rheld", Store(rh, p, TTrue))
			fr.interfere(site, p, st)
			fr.onLock(site, p, st)
		case "RUnlock":
			rh := fc.rheldSet(st)
			fc.oblige(st, "lock", fr.path, Select(rh, p), fr.pos(site), "RUnlock: read lock is held")
			st.ghosts["rheld"] = fc.sc.Define("rheld", Store(rh, p, TFalse))
			fr.noteReleased(site, p, st)
		case "TryLock":
			ok := fc.sc.Fresh("trylock", SBool)
			st.ghosts["held"] = fc.sc.Define("held", Ite(ok, Store(h, p, TTrue), h))
			return []Val{scalar(ok)}
		default:
			unsup("sync model: %s", name)
		}
		return nil
	case strings.HasPrefix(name, "sync/atomic."):
		op := name[len("sync/atomic."):]
		t := atomicWidthType(op)
		if t == nil {
			unsup("atomic op %s", op)
		}
		p := args[0].T
		fr.checkNonNil(st, p, site, "atomic operation on nil pointer")
		cur := fc.load(st, p, t).T
		wr := func(v *Term) {
			fr.checkWrite(st, site, locItem{kind: "loc", obj: PObj(p), slot: PSlot(p), width: 1}, "atomic store")
			fc.store(st, p, t, scalar(v))
		}
		switch {
		case strings.HasPrefix(op, "Load"):
			v := fc.sc.Define("aload", cur)
			fc.assume(st, fc.typeFacts(st, scalar(v), t))
			return []Val{scalar(v)}
		case strings.HasPrefix(op, "Store"):
			wr(args[1].T)
			return nil
		case strings.HasPrefix(op, "Add"):
			nv := fc.sc.Define("aadd", fr.truncInt(Add(cur, args[1].T), t))
			wr(nv)
			return []Val{scalar(nv)}
		case strings.HasPrefix(op, "Swap"):
			old := fc.sc.Define("aswap", cur)
			wr(args[1].T)
			return []Val{scalar(old)}
		case strings.HasPrefix(op, "CompareAndSwap"):
			ok := fc.sc.Define("cas", Eq(cur, args[1].T))
			wr(Ite(ok, args[2].T, cur))
			return []Val{scalar(ok)}
		}
		unsup("atomic op %s", op)
	case strings.HasPrefix(name, "(*sync/atomic."):
		// typed atomics: (*atomic.Int32).Add etc.; the value lives in the first Int/Bool/Ptr leaf of the struct
		recvT := f.Signature.Recv().Type().Underlying().(*types.Pointer).Elem()
		tn := types.TypeString(recvT, nil)
		op := name[strings.LastIndex(name, ".")+1:]
		p := args[0].T
		var vt types.Type
		switch {
		case strings.HasSuffix(tn, "atomic.Int32"):
			vt = types.Typ[types.Int32]
		case strings.HasSuffix(tn, "atomic.Int64"):
			vt = types.Typ[types.Int64]
		case strings.HasSuffix(tn, "atomic.Uint32"):
			vt = types.Typ[types.Uint32]
		case strings.HasSuffix(tn, "atomic.Uint64"):
			vt = types.Typ[types.Uint64]
		case strings.HasSuffix(tn, "atomic.Bool"):
			vt = types.Typ[types.Bool]
		default:
			if strings.Contains(tn, "atomic.Pointer[") {
				vt = f.Signature.Results().At(0).Type()
				if op == "Store" {
					vt = f.Signature.Params().At(0).Type()
				}
				if op == "CompareAndSwap" {
					vt = f.Signature.Params().At(0).Type()
				}
			} else {
				unsup("typed atomic %s", tn)
			}
		}
		// dedicated ghost cell per atomic object: slot = base slot of the struct, heap by sort of vt
		cell := MkPtr(PObj(p), Add(PSlot(p), IntLit(2048)))
		cur := fc.load(st, cell, vt).T
		wr := func(v *Term) {
			fr.checkWrite(st, site, locItem{kind: "loc", obj: PObj(cell), slot: PSlot(cell), width: 1}, "atomic store")
			fc.store(st, cell, vt, scalar(v))
		}
		switch op {
		case "Load":
			v := fc.sc.Define("aload", cur)
			fc.assume(st, fc.typeFacts(st, scalar(v), vt))
			return []Val{scalar(v)}
		case "Store":
			wr(args[1].T)
			return nil
		case "Add":
			nv := fc.sc.Define("aadd", fr.truncInt(Add(cur, args[1].T), vt))
			wr(nv)
			return []Val{scalar(nv)}
		case "Swap":
			old := fc.sc.Define("aswap", cur)
			wr(args[1].T)
			return []Val{scalar(old)}
		case "CompareAndSwap":
			ok := fc.sc.Define("cas", Eq(cur, args[1].T))
			wr(Ite(ok, args[2].T, cur))
			return []Val{scalar(ok)}
		}
		unsup("typed atomic op %s", name)
	case strings.HasPrefix(name, "(*sync.WaitGroup)."), strings.HasPrefix(name, "(*sync.Once)."), strings.HasPrefix(name, "(*sync.Pool)."):
		unsup("sync model: %s", name)
	}
	unsup("model %s", name)
	return nil
}

// hooks for lock invariants / ownership (filled in by own.go)
func (fr *Frame) onLock(site ssa.Instruction, lock *Term, st *State)   {}
func (fr *Frame) onUnlock(site ssa.Instruction, lock *Term, st *State) {}
