package main

import (
	"os/exec"
	"bufio"
	"encoding/json"
	"fmt"
	"os"
	"path/filepath"
	"sort"
	"strconv"
	"strings"
	"time"
)

// PropSpec (/verif/specs/<id>.json) lists what makes up the check of one property.
type PropSpec struct {
	ID        string   `json:"id"`
	Functions []string `json:"functions"` // functions verified against their contract (+ safety sweep)
	Sweep     []string `json:"sweep"`     // functions verified for the automatic safety obligations only
	Lemmas    []string `json:"lemmas"`    // spec-level lemmas
	Notes     []string `json:"notes"`     // clauses of the property that are not covered (assumptions / paper steps)
	Bounded   []BoundedSpec `json:"bounded"`
	Structural []string `json:"structural"` // names of structural checks (Go-coded)
	TimeoutS   int      `json:"timeout_s"`  // per-obligation solver budget of the quick tier (default 20 s)
}

type BoundedSpec struct {
	Name  string `json:"name"`
	Cmd   string `json:"cmd"`
	Bound string `json:"bound"`
}

type KnownFinding struct {
	Property   string `json:"property"`
	Obligation string `json:"obligation"`
	Status     string `json:"status"` // known | fixed
	What       string `json:"what"`
	Input      string `json:"input,omitempty"`
	Commit     string `json:"commit,omitempty"`
	ReplayCmd  string `json:"replay_cmd,omitempty"` // a test against the real code that fails while the defect is present
}

func loadKnownFindings(path string) []KnownFinding {
	f, err := os.Open(path)
	if err != nil {
		return nil
	}
	defer f.Close()
	var out []KnownFinding
	sc := bufio.NewScanner(f)
	sc.Buffer(make([]byte, 1<<20), 1<<20)
	for sc.Scan() {
		line := strings.TrimSpace(sc.Text())
		if line == "" || strings.HasPrefix(line, "#") {
			continue
		}
		var k KnownFinding
		if json.Unmarshal([]byte(line), &k) == nil {
			out = append(out, k)
		}
	}
	return out
}

type sample struct {
	Obligation string  `json:"obligation"`
	Kind       string  `json:"kind"`
	Where      string  `json:"where"`
	What       string  `json:"what"`
	Verdict    string  `json:"verdict"`
	Solver     string  `json:"solver"`
	Seconds    float64 `json:"seconds"`
	VCBytes    int     `json:"vc_bytes"`
}

func cmdCheck(args []string) int {
	if len(args) < 1 {
		fmt.Fprintln(os.Stderr, "usage: govc check <Cxx> [quick|thorough]")
		return 2
	}
	id := args[0]
	tier := envOr("VERIF_TIER", "quick")
	if len(args) > 1 {
		tier = args[1]
	}
	seed, _ := strconv.Atoi(envOr("VERIF_SEED", "0"))
	verifDir := envOr("VERIF_DIR", "/verif")
	repo := envOr("VERIF_REPO", "/repo")
	t0 := time.Now()
	var spec PropSpec
	data, err := os.ReadFile(filepath.Join(verifDir, "specs", id+".json"))
	if err != nil {
		fmt.Fprintln(os.Stderr, "no spec for", id, err)
		return 2
	}
	if err := json.Unmarshal(data, &spec); err != nil {
		fmt.Fprintln(os.Stderr, "bad spec:", err)
		return 2
	}
	outDir := envOr("VERIF_OUT", filepath.Join(verifDir, "out"))
	replayDir := filepath.Join(outDir, "replay", id)
	os.RemoveAll(replayDir)
	os.MkdirAll(replayDir, 0o755)
	smtDir := filepath.Join(outDir, "smt", id)
	os.RemoveAll(smtDir)
	os.MkdirAll(smtDir, 0o755)

	violations := 0
	report := func(obl, replay, extra string) {
		violations++
		fmt.Printf("VIOLATION property=%s replay=%s obligation=%s%s\n", id, replay, obl, extra)
	}

	eng, err := LoadEngine(repo, verifDir)
	if err != nil {
		// the tree does not load (does not compile, or a contract file is malformed): fail closed
		p := filepath.Join(replayDir, "load-error.json")
		writeJSON(p, map[string]any{"property": id, "obligation": id + "/load", "error": err.Error()})
		report(id+"/load", p, " no-failing-input-found")
		writeEvidence(verifDir, id, tier, seed, nil, nil, nil, time.Since(t0).Seconds(), violations, &spec, nil, eng)
		return 1
	}
	cfg := SolverCfg{TimeoutS: 20, OutDir: smtDir, Jobs: 16}
	if spec.TimeoutS > cfg.TimeoutS {
		cfg.TimeoutS = spec.TimeoutS // properties whose lemmas need more than the default first-pass budget
	}
	if tier == "thorough" && cfg.TimeoutS < 90 {
		cfg.TimeoutS = 90
	}
	var results []*FuncResult
	var all []*Obligation
	var covers []*Obligation
	keys := append([]string{}, spec.Functions...)
	sweepOnly := map[string]bool{}
	for _, k := range spec.Sweep {
		keys = append(keys, k)
		sweepOnly[k] = true
	}
	for _, pat := range keys {
		ks := eng.matchFuncs(pat)
		if len(ks) != 1 {
			r := &FuncResult{Key: pat, Err: fmt.Sprintf("function pattern %q matches %d functions (stale spec or renamed function)", pat, len(ks))}
			results = append(results, r)
			continue
		}
		r := eng.VerifyFunc(ks[0])
		if !sweepOnly[pat] && !r.HasContract && r.Err == "" {
			r.Err = "function listed under contract has no contract: " + ks[0]
		}
		results = append(results, r)
		all = append(all, r.Obligations...)
		covers = append(covers, r.Covers...)
	}
	for _, ln := range spec.Lemmas {
		found := false
		for _, b := range eng.db.Lemmas {
			if b.Name == ln {
				found = true
				r := eng.VerifyLemma(b)
				results = append(results, r)
				all = append(all, r.Obligations...)
			}
		}
		if !found {
			results = append(results, &FuncResult{Key: "lemma:" + ln, Err: "lemma not found: " + ln})
		}
	}
	for _, sn := range spec.Structural {
		r := eng.structuralCheck(sn)
		results = append(results, r)
		all = append(all, r.Obligations...)
	}
	known := loadKnownFindings(filepath.Join(verifDir, "known_findings.jsonl"))
	cfg.SkipRetry = func(name string) bool {
		for i := range known {
			if known[i].Property == id && known[i].Obligation == id+"/"+name && known[i].Status == "known" {
				return true
			}
		}
		return false
	}
	dischargeAll(all, covers, cfg)

	isKnown := func(name string) *KnownFinding {
		for i := range known {
			if known[i].Property == id && known[i].Obligation == name && known[i].Status == "known" {
				return &known[i]
			}
		}
		return nil
	}
	knownSeen := map[string]bool{}
	nProved, nKnown, nKnownBounded := 0, 0, 0
	var solverTime float64
	bySolver := map[string]int{}
	byKind := map[string]int{}
	for _, r := range results {
		if r.Err != "" {
			name := id + "/" + shortName(r.Key) + "/engine"
			p := filepath.Join(replayDir, fileSafe(name)+".json")
			writeJSON(p, map[string]any{"property": id, "obligation": name, "error": r.Err,
				"note": "the function could not be brought under the verifier (unsupported construct, stale contract or spec error); reported fail-closed"})
			if k := isKnown(name); k != nil {
				fmt.Printf("KNOWN-FINDING: property=%s %s %s\n", id, name, k.What)
				knownSeen[name] = true
				nKnown++
			} else {
				report(name, p, " no-failing-input-found")
				fmt.Printf("  reason: %s\n", r.Err)
			}
		}
		if len(r.Obligations) == 0 && r.Err == "" {
			name := id + "/" + shortName(r.Key) + "/vacuous"
			p := filepath.Join(replayDir, fileSafe(name)+".json")
			writeJSON(p, map[string]any{"property": id, "obligation": name, "error": "zero obligations generated"})
			report(name, p, " no-failing-input-found")
		}
		for _, o := range r.Obligations {
			solverTime += o.TimeS
			byKind[o.Kind]++
			full := id + "/" + o.Name
			if o.Status == "proved" {
				nProved++
				bySolver[o.Solver]++
				continue
			}
			if k := isKnown(full); k != nil {
				fmt.Printf("KNOWN-FINDING: property=%s %s %s\n", id, full, k.What)
				knownSeen[full] = true
				nKnown++
				continue
			}
			p := filepath.Join(replayDir, fileSafe(o.Name)+".json")
			rep := map[string]any{"property": id, "obligation": full, "kind": o.Kind, "where": fmt.Sprintf("%s:%d", o.Pos.Filename, o.Pos.Line),
				"what": o.Desc, "status": o.Status, "solver_output": o.Output}
			extra := " no-failing-input-found"
			// an obligation whose earlier failure was traced to a concrete history has a recorded replay against the
			// real code (replays/): if the defect is back, the replay fails again - a failing input, not just a failed proof
			for i := range known {
				if known[i].Property == id && known[i].Obligation == full && known[i].ReplayCmd != "" {
					cmd := exec.Command("bash", "-c", known[i].ReplayCmd)
					cmd.Dir = verifDir
					cmd.Env = append(os.Environ(), "VERIF_REPO="+repo)
					outb, err := cmd.CombinedOutput()
					tail := string(outb)
					if len(tail) > 4000 {
						tail = tail[len(tail)-4000:]
					}
					rep["replay"] = map[string]any{"cmd": known[i].ReplayCmd, "reproduced": err != nil, "output": tail}
					if err != nil {
						extra = ""
					}
					break
				}
			}
			if o.Model != "" {
				rep["model"] = o.Model
				rp := eng.tryReplay(id, o, replayDir)
				if rp != nil {
					rep["replay"] = rp
					if rp.Reproduced {
						extra = ""
					}
				}
			}
			writeJSON(p, rep)
			report(full, p, extra)
			fmt.Printf("  %s:%d %s [%s]\n", o.Pos.Filename, o.Pos.Line, o.Desc, o.Status)
		}
	}
	for _, c := range covers {
		byKind["cover"]++
		if c.Status != "proved" {
			full := id + "/" + c.Name
			p := filepath.Join(replayDir, fileSafe(c.Name)+".json")
			writeJSON(p, map[string]any{"property": id, "obligation": full, "error": "contradictory assumptions: function exit unreachable under its preconditions (vacuous proof)"})
			report(full, p, " no-failing-input-found")
		}
	}
	// bounded stand-ins
	var bounded []map[string]any
	for _, b := range spec.Bounded {
		br := runBounded(verifDir, repo, id, b, tier, replayDir)
		bounded = append(bounded, br)
		if br["status"] != "pass" {
			name := id + "/bounded:" + b.Name
			if k := isKnown(name); k != nil {
				fmt.Printf("KNOWN-FINDING: property=%s %s %s\n", id, name, k.What)
				knownSeen[name] = true
				nKnownBounded++
			} else {
				report(name, fmt.Sprint(br["replay"]), "")
			}
		}
	}
	// stale known findings are reported (informational), never silently kept
	for _, k := range known {
		if k.Property == id && k.Status == "known" && !knownSeen[k.Obligation] {
			fmt.Printf("NOTE: known finding no longer observed: %s\n", k.Obligation)
		}
	}
	// slowest obligations (proofs that take long are the unstable ones)
	sorted := append([]*Obligation{}, all...)
	sort.Slice(sorted, func(i, j int) bool { return sorted[i].TimeS > sorted[j].TimeS })
	var slow []map[string]any
	for i := 0; i < len(sorted) && i < 5; i++ {
		if sorted[i].TimeS > 2 {
			fmt.Printf("  slow: %.1fs %s [%s]\n", sorted[i].TimeS, sorted[i].Name, sorted[i].Solver)
		}
		slow = append(slow, map[string]any{"obligation": sorted[i].Name, "seconds": sorted[i].TimeS, "solver": sorted[i].Solver})
	}
	total := len(all)
	fmt.Printf("%s [%s]: %d obligations, %d discharged, %d known findings, %d violations, solver time %.1fs, wall %.1fs\n",
		id, tier, total, nProved, nKnown+nKnownBounded, violations, solverTime, time.Since(t0).Seconds())
	stats := map[string]any{"by_solver": bySolver, "by_kind": byKind, "solver_time_s": solverTime, "known_findings": nKnown, "known_findings_bounded": nKnownBounded, "proved": nProved, "total": total, "bounded": bounded, "slowest": slow}
	writeEvidence(verifDir, id, tier, seed, results, all, covers, time.Since(t0).Seconds(), violations, &spec, stats, eng)
	if violations > 0 {
		return 1
	}
	return 0
}

func writeJSON(path string, v any) {
	data, _ := json.MarshalIndent(v, "", " ")
	os.WriteFile(path, data, 0o644)
}

func writeEvidence(verifDir, id, tier string, seed int, results []*FuncResult, all []*Obligation, covers []*Obligation, wall float64, violations int, spec *PropSpec, stats map[string]any, eng *Engine) {
	evDir := envOr("VERIF_EVIDENCE_DIR", filepath.Join(verifDir, "evidence"))
	os.MkdirAll(evDir, 0o755)
	var funcs []map[string]any
	assum := map[string]bool{}
	inl := map[string]bool{}
	contracts := map[string]bool{}
	for _, r := range results {
		np := 0
		for _, o := range r.Obligations {
			if o.Status == "proved" {
				np++
			}
		}
		m := map[string]any{"function": shortName(r.Key), "obligations": len(r.Obligations), "discharged": np, "has_contract": r.HasContract, "ssa_instructions": r.NInstr}
		if r.Err != "" {
			m["error"] = r.Err
		}
		funcs = append(funcs, m)
		for _, a := range r.Assumptions {
			assum[a] = true
		}
		for _, a := range r.Inlined {
			inl[a] = true
		}
		for _, a := range r.Contracts {
			contracts[a] = true
		}
	}
	var samples []sample
	pick := map[string]int{}
	for _, o := range all {
		if pick[o.Kind] >= 2 {
			continue
		}
		pick[o.Kind]++
		samples = append(samples, sample{Obligation: o.Name, Kind: o.Kind, Where: fmt.Sprintf("%s:%d", o.Pos.Filename, o.Pos.Line), What: o.Desc,
			Verdict: o.Status, Solver: o.Solver, Seconds: o.TimeS, VCBytes: len(o.NegGoal) + o.NFacts*40})
	}
	if len(samples) == 0 {
		samples = append(samples, sample{Obligation: id + "/load", Kind: "load", Verdict: "error"})
	}
	nProved := 0
	for _, o := range all {
		if o.Status == "proved" {
			nProved++
		}
	}
	var assumptions []string
	for a := range assum {
		assumptions = append(assumptions, a)
	}
	sort.Strings(assumptions)
	if spec != nil {
		for _, n := range spec.Notes {
			assumptions = append(assumptions, "not covered (listed assumption / paper step): "+n)
		}
	}
	var assumedContracts []string
	if eng != nil {
		for k, b := range eng.db.Funcs {
			if b.Kind == "assume" && contracts[shortName(k)] {
				assumedContracts = append(assumedContracts, shortName(k))
			}
		}
	}
	sort.Strings(assumedContracts)
	for _, a := range assumedContracts {
		assumptions = append(assumptions, "assumed contract of dependency: "+a)
	}
	var inlined []string
	for a := range inl {
		inlined = append(inlined, a)
	}
	sort.Strings(inlined)
	trusted := []string{"govc (this engine: SSA-to-SMT translation, spec parser)", "golang.org/x/tools/go/ssa v0.50.0", "z3 4.8.12, z3 5.1.0, cvc5 1.0.3",
		"int is 64 bit", "Go type safety (no unsafe): a pointer to a struct type that is never embedded by value points at the start of its own allocation"}
	cov := map[string]any{
		"obligations": len(all) - knownCount(stats), "discharged": nProved,
		"checker_cmd": fmt.Sprintf("cd /verif && ./check %s %s", id, tier),
		"trusted_base": trusted,
		"functions_under_contract": funcs,
		"verified_by_body_inlined": inlined,
		"samples": samples,
		"covers_checked": len(covers),
		"rule": "one obligation per generated verification condition (precondition at a call, postcondition, loop invariant entry/preservation, variant, frame, nil/bounds/type-assertion/division/overflow/panic safety, lock discipline, lemma); each is discharged by an SMT solver for all inputs",
	}
	for k, v := range stats {
		cov[k] = v
	}
	ev := map[string]any{"property_id": id, "tier": tier, "seed": seed, "level": "proof", "coverage": cov, "assumptions": assumptions, "wall_s": wall, "violations": violations}
	writeJSON(filepath.Join(evDir, id+".json"), ev)
}

type ReplayResult struct {
	Reproduced bool   `json:"reproduced"`
	TestFile   string `json:"test_file,omitempty"`
	Output     string `json:"output,omitempty"`
	Input      string `json:"input,omitempty"`
}

func knownCount(stats map[string]any) int {
	if stats == nil {
		return 0
	}
	if n, ok := stats["known_findings"].(int); ok {
		return n
	}
	return 0
}
