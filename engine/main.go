package main

import (
	"flag"
	"fmt"
	"os"
	"strings"
)

func main() {
	if len(os.Args) < 2 {
		fmt.Fprintln(os.Stderr, "usage: govc <fn|check|selftest> ...")
		os.Exit(2)
	}
	switch os.Args[1] {
	case "fn":
		cmdFn(os.Args[2:])
	case "check":
		os.Exit(cmdCheck(os.Args[2:]))
	default:
		fmt.Fprintln(os.Stderr, "unknown command")
		os.Exit(2)
	}
}

func envOr(k, d string) string {
	if v := os.Getenv(k); v != "" {
		return v
	}
	return d
}

// cmdFn: verify named functions (debugging aid): govc fn [-t secs] key...
func cmdFn(args []string) {
	fs := flag.NewFlagSet("fn", flag.ExitOnError)
	timeout := fs.Int("t", 10, "per-obligation timeout (s)")
	keep := fs.Bool("keep", false, "keep smt files")
	verbose := fs.Bool("v", false, "verbose")
	fs.Parse(args)
	eng, err := LoadEngine(envOr("VERIF_REPO", "/repo"), envOr("VERIF_DIR", "/verif"))
	if err != nil {
		fmt.Fprintln(os.Stderr, "load:", err)
		os.Exit(2)
	}
	cfg := SolverCfg{TimeoutS: *timeout, OutDir: "/verif/out/smt", Jobs: 16, TwoSolvers: *keep}
	bad := 0
	for _, k := range fs.Args() {
		keys := eng.matchFuncs(k)
		if len(keys) == 0 {
			fmt.Println("no function matches", k)
			bad++
		}
		for _, key := range keys {
			var r *FuncResult
			if strings.HasPrefix(key, "lemma:") {
				for _, b := range eng.db.Lemmas {
					if "lemma:"+b.Name == key {
						r = eng.VerifyLemma(b)
					}
				}
			} else {
				r = eng.VerifyFunc(key)
			}
			covers := r.Covers
			dischargeAll(r.Obligations, covers, cfg)
			np := 0
			for _, o := range r.Obligations {
				if o.Status == "proved" {
					np++
				}
			}
			fmt.Printf("== %s: %d/%d obligations proved", key, np, len(r.Obligations))
			if r.Err != "" {
				fmt.Printf("  ERROR: %s", r.Err)
				bad++
			}
			fmt.Println()
			for _, o := range append(r.Obligations, covers...) {
				if o.Status != "proved" || *verbose {
					fmt.Printf("   %-8s %s  [%s %.2fs] %s:%d %s\n", o.Status, o.Name, o.Solver, o.TimeS, o.Pos.Filename, o.Pos.Line, o.Desc)
					if o.Status != "proved" {
						bad++
						fmt.Print(indent(o.Output, "      "))
						if o.Model != "" && *verbose {
							fmt.Print(indent(o.Model, "      | "))
						}
					}
				}
			}
			if *verbose {
				fmt.Println("   inlined:", r.Inlined)
				fmt.Println("   contracts:", r.Contracts)
				fmt.Println("   assumptions:", r.Assumptions)
			}
		}
	}
	if bad > 0 {
		os.Exit(1)
	}
}

func indent(s, p string) string {
	var sb strings.Builder
	for _, l := range strings.Split(strings.TrimRight(s, "\n"), "\n") {
		sb.WriteString(p + l + "\n")
	}
	return sb.String()
}

func (e *Engine) matchFuncs(pat string) []string {
	var out []string
	if strings.HasPrefix(pat, "lemma:") {
		for _, b := range e.db.Lemmas {
			if pat == "lemma:*" || "lemma:"+b.Name == pat {
				out = append(out, "lemma:"+b.Name)
			}
		}
		return out
	}
	if _, ok := e.funcs[pat]; ok {
		return []string{pat}
	}
	for k := range e.funcs {
		if shortName(k) == pat || strings.HasSuffix(k, pat) {
			out = append(out, k)
		}
	}
	return out
}
