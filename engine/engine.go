package main

import (
	"fmt"
	"runtime/debug"
	"go/token"
	"go/types"
	"os"
	"path/filepath"
	"sort"
	"strings"

	"golang.org/x/tools/go/packages"
	"golang.org/x/tools/go/ssa"
	"golang.org/x/tools/go/ssa/ssautil"
)

type Engine struct {
	repo    string
	modPath string
	fset    *token.FileSet
	pkgs    []*packages.Package
	prog    *ssa.Program
	spkgs   []*ssa.Package
	initOnly map[*ssa.Global]bool
	db      *SpecDB
	ti      *TypeInfo
	globals map[*ssa.Global]int
	funcIDs map[*ssa.Function]int
	funcs   map[string]*ssa.Function // by key
	specFiles []string
	guards    []guardDecl
	allocCap int64
}

func LoadEngine(repo string, verifDir string) (*Engine, error) {
	e := &Engine{repo: repo, ti: NewTypeInfo(), globals: map[*ssa.Global]int{}, funcIDs: map[*ssa.Function]int{}, funcs: map[string]*ssa.Function{}, allocCap: 1 << 20}
	cfg := &packages.Config{Mode: packages.LoadSyntax | packages.NeedModule, Dir: repo, BuildFlags: []string{"-tags=verif"}}
	pkgs, err := packages.Load(cfg, "./...")
	if err != nil {
		return nil, err
	}
	var errs []string
	packages.Visit(pkgs, nil, func(p *packages.Package) {
		for _, er := range p.Errors {
			errs = append(errs, er.Error())
		}
	})
	if len(errs) > 0 {
		return nil, fmt.Errorf("package load errors:\n%s", strings.Join(errs, "\n"))
	}
	e.pkgs = pkgs
	if len(pkgs) > 0 {
		e.fset = pkgs[0].Fset
	}
	prog, spkgs := ssautil.Packages(pkgs, ssa.InstantiateGenerics|ssa.GlobalDebug)
	prog.Build()
	e.prog = prog
	e.spkgs = spkgs
	for _, p := range pkgs {
		if p.Module != nil {
			e.modPath = p.Module.Path
			break
		}
	}
	for _, sp := range spkgs {
		if sp == nil {
			continue
		}
		for _, m := range sp.Members {
			switch m := m.(type) {
			case *ssa.Function:
				e.indexFunc(m)
			case *ssa.Type:
				for _, t := range []types.Type{m.Type(), types.NewPointer(m.Type())} {
					ms := prog.MethodSets.MethodSet(t)
					for i := 0; i < ms.Len(); i++ {
						if f := prog.MethodValue(ms.At(i)); f != nil {
							e.indexFunc(f)
						}
					}
				}
			}
		}
	}
	// instances of the module's generic functions that the program uses (verifiable like any other function)
	for f := range ssautil.AllFunctions(prog) {
		if f.Origin() != nil && f.Origin().Pkg != nil && strings.HasPrefix(f.Origin().Pkg.Pkg.Path(), e.modPath) {
			e.indexFunc(f)
		}
	}
	// type census for the standalone-allocation invariant
	for _, p := range e.allTypesPkgs() {
		sc := p.Scope()
		for _, n := range sc.Names() {
			e.ti.NoteType(sc.Lookup(n).Type())
		}
	}
	for f := range ssautil.AllFunctions(prog) {
		e.ti.NoteType(f.Signature)
		for _, b := range f.Blocks {
			for _, in := range b.Instrs {
				if v, ok := in.(ssa.Value); ok {
					e.ti.NoteType(v.Type())
				}
			}
		}
	}
	// deterministic type tags: every type of the module's own packages gets its tag now, in sorted order, so
	// that the generated conditions do not depend on which functions were verified before
	{
		seen := map[string]types.Type{}
		note := func(t types.Type) {
			if t == nil {
				return
			}
			if _, isTuple := t.(*types.Tuple); isTuple {
				return
			}
			seen[types.TypeString(canonType(t), nil)] = t
		}
		for _, p := range e.allTypesPkgs() {
			if !strings.HasPrefix(p.Path(), e.modPath) {
				continue
			}
			sc := p.Scope()
			for _, n := range sc.Names() {
				if tn, ok := sc.Lookup(n).(*types.TypeName); ok {
					note(tn.Type())
					note(types.NewPointer(tn.Type()))
				}
			}
		}
		for f := range ssautil.AllFunctions(prog) {
			if f.Pkg == nil || !strings.HasPrefix(f.Pkg.Pkg.Path(), e.modPath) {
				continue
			}
			for _, b := range f.Blocks {
				for _, in := range b.Instrs {
					if v, ok := in.(ssa.Value); ok {
						note(v.Type())
					}
				}
			}
		}
		var ks []string
		for k := range seen {
			ks = append(ks, k)
		}
		sort.Strings(ks)
		for _, k := range ks {
			e.ti.TagOf(seen[k])
		}
	}
	e.db = NewSpecDB()
	files, err := e.db.LoadRepoSpecs(repo, e.modPath)
	if err != nil {
		return nil, err
	}
	e.specFiles = files
	std, _ := filepath.Glob(filepath.Join(verifDir, "stdlib_contracts", "*.spec"))
	sort.Strings(std)
	for _, f := range std {
		if err := e.db.LoadSpecFile(f, ""); err != nil {
			return nil, err
		}
		e.specFiles = append(e.specFiles, f)
	}
	if err := e.db.Finish(); err != nil {
		return nil, err
	}
	e.expandShortKeys()
	return e, nil
}

// expandShortKeys: contract keys written with a bare package name ("(*cluster.Context).Leave", "scheduler.New")
// are rewritten to the full import path when that name is unique among the loaded packages.
func (e *Engine) expandShortKeys() {
	byName := map[string][]string{}
	for _, p := range e.allTypesPkgs() {
		byName[p.Name()] = append(byName[p.Name()], p.Path())
	}
	expand := func(key string) string {
		// forms: "(*pkg.T).M", "(pkg.T).M", "pkg.F"
		pre, rest := "", key
		if strings.HasPrefix(rest, "(*") {
			pre, rest = "(*", rest[2:]
		} else if strings.HasPrefix(rest, "(") {
			pre, rest = "(", rest[1:]
		}
		k := strings.Index(rest, ".")
		if k <= 0 || strings.Contains(rest[:k], "/") {
			return key
		}
		name := rest[:k]
		if paths := byName[name]; len(paths) == 1 && paths[0] != name {
			return pre + paths[0] + rest[k:]
		}
		return key
	}
	for k, b := range e.db.Funcs {
		if nk := expand(k); nk != k {
			if _, clash := e.db.Funcs[nk]; !clash {
				delete(e.db.Funcs, k)
				e.db.Funcs[nk] = b
				b.Name = nk
			}
		}
	}
	for k, b := range e.db.Loops {
		if nk := expand(k); nk != k {
			if _, clash := e.db.Loops[nk]; !clash {
				delete(e.db.Loops, k)
				e.db.Loops[nk] = b
			}
		}
	}
}

func (e *Engine) indexFunc(f *ssa.Function) {
	if f == nil {
		return
	}
	k := funcKey(f)
	if _, ok := e.funcs[k]; ok {
		return
	}
	e.funcs[k] = f
	for _, an := range f.AnonFuncs {
		e.indexFunc(an)
	}
}

func (e *Engine) allTypesPkgs() []*types.Package {
	seen := map[*types.Package]bool{}
	var out []*types.Package
	var visit func(p *types.Package)
	visit = func(p *types.Package) {
		if seen[p] {
			return
		}
		seen[p] = true
		out = append(out, p)
		for _, i := range p.Imports() {
			visit(i)
		}
	}
	for _, p := range e.pkgs {
		if p.Types != nil {
			visit(p.Types)
		}
	}
	return out
}

func (e *Engine) typesPkg(path string) *types.Package {
	for _, p := range e.allTypesPkgs() {
		if p.Path() == path {
			return p
		}
	}
	return nil
}

// typesInfo returns the go/types info of the package that declares fn.
func (e *Engine) typesInfo(fn *ssa.Function) *types.Info {
	tp := fnTypesPkg(fn)
	if tp == nil {
		return nil
	}
	for _, p := range e.pkgs {
		if p.Types == tp {
			return p.TypesInfo
		}
	}
	return nil
}

func (e *Engine) funcID(f *ssa.Function) int {
	if id, ok := e.funcIDs[f]; ok {
		return id
	}
	id := 1000000 + len(e.funcIDs)
	e.funcIDs[f] = id
	return id
}

// globalPtr: every package-level variable lives in its own object with a small fixed id.
func (e *Engine) globalPtr(fc *FnCtx, g *ssa.Global) *Term {
	id, ok := e.globals[g]
	if !ok {
		id = len(e.globals) + 1
		e.globals[g] = id
	}
	elem := g.Type().Underlying().(*types.Pointer).Elem()
	return MkPtr(IntLit(int64(id)), IntLit(e.ti.BaseSlot(elem)))
}

func (e *Engine) globalFor(v *types.Var) *ssa.Global {
	if v.Pkg() == nil {
		return nil
	}
	sp := e.prog.Package(v.Pkg())
	if sp == nil {
		return nil
	}
	if g, ok := sp.Members[v.Name()].(*ssa.Global); ok {
		return g
	}
	return nil
}

// globalConst: package-level error sentinels (var ErrX = errors.New(...)) are treated as distinct
// non-nil constants that are never reassigned (listed as an assumption).
func (e *Engine) globalConst(fc *FnCtx, g *ssa.Global, st *State) (Val, bool) {
	elem := g.Type().Underlying().(*types.Pointer).Elem()
	_, elemIsPtr := elem.Underlying().(*types.Pointer)
	if elemIsPtr && (strings.HasPrefix(g.Name(), "Err") || strings.HasPrefix(g.Name(), "err")) {
		// package-level *Error sentinels: distinct non-nil pointer constants
		name := "gerrp_" + sanitize(g.Pkg.Pkg.Path()+"."+g.Name())
		if !fc.sc.funcs[name] {
			fc.sc.DeclFun(name, nil, SPtr)
			fc.sc.Assert(And(Gt(PObj(mk(SPtr, name)), IntLit(0)), Lt(PObj(mk(SPtr, name)), IntLit(100000)), Eq(PSlot(mk(SPtr, name)), IntLit(fc.eng.ti.BaseSlot(elem.Underlying().(*types.Pointer).Elem())))))
		}
		fc.note("package-level error sentinels are distinct non-nil constants, never reassigned")
		return scalar(mk(SPtr, name)), true
	}
	if types.TypeString(elem, nil) == "error" && (strings.HasPrefix(g.Name(), "Err") || strings.HasPrefix(g.Name(), "err") || strings.HasPrefix(g.Name(), "EOF")) {
		name := "gerr_" + sanitize(g.Pkg.Pkg.Path()+"."+g.Name())
		if !fc.sc.funcs[name] {
			fc.sc.DeclFun(name, nil, SIface)
			fc.sc.Assert(Gt(ITag(mk(SIface, name)), IntLit(0)))
			fc.errGlobals = append(fc.errGlobals, name)
			if len(fc.errGlobals) > 1 {
				for _, o := range fc.errGlobals[:len(fc.errGlobals)-1] {
					fc.sc.Assert(Ne(mk(SIface, o), mk(SIface, name)))
				}
			}
		}
		fc.note("package-level error sentinels are distinct non-nil constants, never reassigned")
		return scalar(mk(SIface, name)), true
	}
	if _, isFn := elem.Underlying().(*types.Signature); isFn && e.initOnlyGlobal(g) {
		// a package-level function variable assigned only by its initialiser: a non-nil constant
		name := "gfn_" + sanitize(g.Pkg.Pkg.Path()+"."+g.Name())
		if !fc.sc.funcs[name] {
			fc.sc.DeclFun(name, nil, SInt)
			fc.sc.Assert(And(Gt(mk(SInt, name), IntLit(0)), Lt(mk(SInt, name), IntLit(100000))))
		}
		fc.note("package-level function variables that are assigned only by their initialiser are non-nil constants")
		return scalar(mk(SInt, name)), true
	}
	if types.TypeString(elem, nil) == "encoding/binary.bigEndian" || types.TypeString(elem, nil) == "encoding/binary.littleEndian" {
		return Val{Fs: []Val{}}, true
	}
	return Val{}, false
}

// packages whose functions are treated as "returns an arbitrary value, touches no program memory".
var opaquePkgs = map[string]bool{
	"fmt": true, "log": true, "log/slog": true, "errors": true, "strconv": true, "math": true, "math/rand": true,
	"time": true, "os": true, "runtime": true, "runtime/debug": true, "unicode/utf8": true,
	"github.com/google/uuid": true, "reflect": true, "strings": true, "context": true, "net": true, "unicode": true,
}

func (e *Engine) isOpaquePure(f *ssa.Function) bool {
	if f.Pkg == nil {
		// synthetic wrappers / methods of types from dependencies
		if f.Object() != nil && f.Object().Pkg() != nil {
			return e.opaquePath(f.Object().Pkg().Path())
		}
		return false
	}
	return e.opaquePath(f.Pkg.Pkg.Path())
}

func (e *Engine) opaquePath(p string) bool {
	if opaquePkgs[p] {
		return true
	}
	if strings.HasPrefix(p, e.modPath+"/pkg/log") || strings.HasPrefix(p, e.modPath+"/pkg/metrics") || strings.HasPrefix(p, e.modPath+"/internal/metrics") {
		return true
	}
	return false
}

func (e *Engine) opaqueIface(c *ssa.CallCommon) bool {
	// interface methods of logging / metrics / error / fmt.Stringer / time / reflect.Type
	t := types.TypeString(c.Value.Type(), nil)
	switch {
	case t == "error", t == "fmt.Stringer", t == "reflect.Type", t == "context.Context", t == "net.Addr":
		return true
	case strings.HasPrefix(t, e.modPath+"/pkg/log."), strings.HasPrefix(t, e.modPath+"/pkg/metrics."):
		return true
	}
	return false
}

func (e *Engine) nilReceiverOK(f *ssa.Function) bool {
	if sp := e.db.Funcs[funcKey(f)]; sp != nil && len(sp.ClausesOf("nilreceiver")) > 0 {
		return true
	}
	return false
}

// ---------------------------------------------------------------------------------------------
// verification of one function
// ---------------------------------------------------------------------------------------------

type FuncResult struct {
	Key         string
	Obligations []*Obligation
	Err         string // unsupported construct etc. (fail closed)
	Assumptions []string
	Inlined     []string
	Contracts   []string
	Cover       *Obligation
	Covers      []*Obligation
	HasContract bool
	NInstr      int
}

func (e *Engine) newFnCtx(key string) *FnCtx {
	defTable = map[string]*Term{}
	hselMemo = map[string]*Term{}
	return &FnCtx{eng: e, sc: NewScript(), key: shortName(key), initHeaps: map[string]*Term{}, heapSorts: map[string]Sort{},
		kindCount: map[string]int{}, assumptions: map[string]bool{}, inlined: map[string]bool{}, usedContracts: map[string]bool{},
		ifaceAsserts: map[int]types.Type{}, concreteTags: map[int]types.Type{}, closures: map[string]*closureRec{}, initGhosts: map[string]*Term{}}
}

func (e *Engine) VerifyFunc(key string) (res *FuncResult) {
	res = &FuncResult{Key: key}
	fn := e.funcs[key]
	if fn == nil {
		res.Err = "function not found: " + key
		return
	}
	fc := e.newFnCtx(key)
	defer func() {
		if r := recover(); r != nil {
			switch x := r.(type) {
			case unsupported:
				res.Err = "unsupported: " + x.msg
			case evalErr:
				res.Err = "spec error: " + x.msg
			default:
				// an engine failure is reported fail-closed, never as a pass
				res.Err = fmt.Sprintf("engine panic: %v\n%s", r, debug.Stack())
			}
		}
		res.Obligations = fc.obls
		for a := range fc.assumptions {
			res.Assumptions = append(res.Assumptions, a)
		}
		sort.Strings(res.Assumptions)
		for a := range fc.inlined {
			res.Inlined = append(res.Inlined, shortName(a))
		}
		sort.Strings(res.Inlined)
		for a := range fc.usedContracts {
			res.Contracts = append(res.Contracts, shortName(a))
		}
		sort.Strings(res.Contracts)
		fc.finishScript()
	}()
	for _, b := range fn.Blocks {
		res.NInstr += len(b.Instrs)
	}
	bodyCheckOnly := false
	fr := fc.newFrame(fn, nil, "")
	sp := fr.spec
	res.HasContract = sp != nil
	if sp != nil {
		e.db.UsedKeys["func:"+key] = true
		if sp.Kind == "assume" || (len(sp.ClausesOf("trusted")) > 0 && len(sp.ClausesOf("bodycheck")) == 0) {
			res.Err = "function has an assumed / trusted contract and cannot be listed as verified: " + key
			return
		}
		// `trusted` + `bodycheck`: the contract stays an ASSUMPTION towards callers (typically the frame of user code
		// the function runs is abstracted), but the body is still executed for its safety and call-site (callspec)
		// obligations; its `post` and `frame` obligations are not generated - they are what is trusted
		bodyCheckOnly = len(sp.ClausesOf("trusted")) > 0
		fc.checkOverflow = sp.Has("check", "overflow")
	}
	st := &State{reach: TTrue, heaps: map[string]*Term{}, ghosts: map[string]*Term{}}
	st.next = fc.sc.Fresh("next0", SInt)
	fc.next0 = st.next
	fc.sc.Assert(Gt(st.next, IntLit(100000)))
	for _, s := range []Sort{SInt, SBool, SStr, SPtr, SSlice, SIface, SFlt} {
		fc.leafHeap(st, s)
	}
	var params []Val
	for _, p := range fn.Params {
		v := fc.freshVal(p.Name(), p.Type())
		fc.sc.Assert(fc.typeFacts(st, v, p.Type()))
		params = append(params, v)
	}
	for i, fv := range fn.FreeVars {
		v := fc.freshVal("fv_"+fv.Name(), fv.Type())
		fc.sc.Assert(fc.typeFacts(st, v, fv.Type()))
		if v.T != nil && v.T.Sort == SPtr {
			// a variable captured by reference: its cell always exists
			fc.sc.Assert(Ne(PObj(v.T), IntLit(0)))
		}
		fr.freeBind[fv] = v
		_ = i
	}
	if fn.Signature.Recv() != nil && len(params) > 0 {
		if _, isPtr := fn.Signature.Recv().Type().Underlying().(*types.Pointer); isPtr && !e.nilReceiverOK(fn) {
			fc.sc.Assert(Ne(PObj(params[0].T), IntLit(0)))
			fc.note("method receivers are non-nil (asserted at every call site the engine sees)")
		}
	}
	for i, p := range fn.Params {
		fr.env[p] = params[i]
	}
	fc.topFn, fc.topParams = fn, params
	// function-local ghost variables (`ghostvar name sort`): initialised to 0 / false / nil
	if sp != nil {
		for _, c := range sp.ClausesOf("ghostvar") {
			name, so := parseGhostVar(c)
			var z *Term
			switch so {
			case SInt:
				z = IntLit(0)
			case SBool:
				z = TFalse
			case SIface:
				z = NilIface
			default:
				unsup("%s:%d: ghostvar sort", c.File, c.Line)
			}
			st.ghosts["gv:"+name] = z
		}
	}
	// locks this call has released so far (interference at re-acquisition, own.go): none
	if len(e.guardDecls()) > 0 {
		st.ghosts["relsd"] = fc.relsdInit()
	}
	fr.entry = st.clone()
	if sp != nil && bodyCheckOnly {
		// assumptions of the body check that are NOT demanded of the callers (recorded in the evidence)
		for _, c := range sp.ClausesOf("assumes") {
			ev := fr.evalCtx(st, st)
			fc.sc.Assert(fr.safeEvalBool(ev, c))
			fc.note("bodycheck of " + shortName(key) + " assumes (not checked at its call sites): " + c.Text)
		}
	}
	if sp != nil {
		for _, c := range sp.ClausesOf("requires") {
			ev := fr.evalCtx(st, st)
			fc.sc.Assert(fr.safeEvalBool(ev, c))
		}
		var items []locItem
		hasMod := false
		for _, c := range sp.ClausesOf("modifies") {
			hasMod = true
			ev := fr.evalCtx(st, st)
			items = append(items, fr.safeEvalLocs(ev, c)...)
		}
		_ = hasMod
		fr.funcWC = &writeConstraint{what: "frame", items: items, nextAt: st.next}
	}
	// ghost statements at entry: an (unconditional) `ghostinc g(keys)` on a VERIFIED function is the ghost
	// assignment g[keys]++ executed when the function is entered - callers see it through the contract, the body
	// is verified with it in place (its posts and frame may mention it)
	if sp != nil {
		for _, c := range sp.ClausesOf("ghostinc") {
			if strings.Contains(c.Text, " when ") {
				res.Err = "conditional ghostinc is only meaningful on trusted functions: " + key
				return
			}
			ev := fr.evalCtx(st, st)
			fr.ghostInc(ev, c, st)
		}
	}
	exit, results := fr.run(st, params)
	// postconditions
	if sp != nil {
		binds := map[string]TV{}
		fr.bindResults(binds, results, fn.Signature)
		for _, c := range sp.ClausesOf("ensures") {
			ev := fr.evalCtx(exit, fr.entry).with(binds)
			ev.at = nil
			fc.oblige(exit, "post", "", fr.safeEvalBool(ev, c), e.fset.Position(fn.Pos()), "postcondition: "+c.Text)
		}
	}
	if sp != nil && bodyCheckOnly {
		// `bodyensures e`: checked at the exit of a body-checked trusted function (typically over ghost variables set
		// by its callspecs); it is NOT part of what callers assume
		for _, c := range sp.ClausesOf("bodyensures") {
			ev := fr.evalCtx(exit, fr.entry)
			ev.at = nil
			fc.oblige(exit, "bodypost", "", fr.safeEvalBool(ev, c), e.fset.Position(fn.Pos()), "body obligation: "+c.Text)
		}
	}
	// lock balance
	if h, ok := exit.ghosts["held"]; ok && (sp == nil || (len(sp.ClausesOf("acquires")) == 0 && len(sp.ClausesOf("releases")) == 0)) {
		h0 := fc.ghostInit("held", h.Sort)
		fc.oblige(exit, "lock-balance", "", Eq(h, h0), e.fset.Position(fn.Pos()), "every lock taken is released on every path")
	}
	if bodyCheckOnly {
		fc.note("trusted contract with `bodycheck`: body executed for its call-site, ownership, lock and `bodyensures` obligations only; pre / post / frame / safety of the body remain assumptions")
		kept := fc.obls[:0]
		for _, o := range fc.obls {
			switch o.Kind {
			case "callsite", "bodypost", "guard", "published", "lock", "lock-wait", "lockinv", "chan-close", "noreturn":
				kept = append(kept, o)
			}
		}
		fc.obls = kept
	}
	// `noreturn`: the function never returns normally (it always panics): the exit is unreachable, and says so
	if sp != nil && len(sp.ClausesOf("noreturn")) > 0 {
		fc.oblige(exit, "noreturn", "", TFalse, e.fset.Position(fn.Pos()), "the function never returns normally (declared noreturn)")
		res.Covers = fc.covers
		return
	}
	// vacuity: the exit must be reachable under the assumptions
	cov := &Obligation{Name: fc.key + "/cover#exit", Kind: "cover", Func: fc.key, NFacts: len(fc.sc.facts), NegGoal: exit.reach.S, Script: fc.sc, Pos: e.fset.Position(fn.Pos()), Desc: "function exit reachable (assumptions not contradictory)"}
	res.Cover = cov
	res.Covers = append(fc.covers, cov)
	return
}

// finishScript adds facts about type tags (implements relations) at the front of every query.
func (fc *FnCtx) finishScript() {
	if fc.usesPtrTag {
		for ctag, ct := range fc.concreteTags {
			_, isPtr := ct.Underlying().(*types.Pointer)
			if fc.sc.funcs["ptrtag"] {
				t := app(SBool, "ptrtag", IntLit(int64(ctag)))
				if !isPtr {
					t = Not(t)
				}
				fc.sc.preFacts = append(fc.sc.preFacts, t.S)
			}
			if fc.sc.funcs["elemtag"] {
				hasElem := isPtr
				switch ct.Underlying().(type) {
				case *types.Slice, *types.Array, *types.Map, *types.Chan:
					hasElem = true
				}
				t := app(SBool, "elemtag", IntLit(int64(ctag)))
				if !hasElem {
					t = Not(t)
				}
				fc.sc.preFacts = append(fc.sc.preFacts, t.S)
			}
		}
	}
	for itag, it := range fc.ifaceAsserts {
		name := fmt.Sprintf("impl!%d", itag)
		iface := it.Underlying().(*types.Interface)
		for ctag, ct := range fc.concreteTags {
			impl := types.Implements(ct, iface)
			t := app(SBool, name, IntLit(int64(ctag)))
			if !impl {
				t = Not(t)
			}
			fc.sc.preFacts = append(fc.sc.preFacts, t.S)
		}
	}
}

// VerifyLemma checks a closed `lemma name: formula` block.
func (e *Engine) VerifyLemma(b *Block) *FuncResult {
	key := "lemma:" + b.Name
	res := &FuncResult{Key: key, HasContract: true}
	fc := e.newFnCtx(key)
	defer func() {
		if r := recover(); r != nil {
			switch x := r.(type) {
			case unsupported:
				res.Err = "unsupported: " + x.msg
			case evalErr:
				res.Err = fmt.Sprintf("%s:%d: spec error: %s", b.File, b.Line, x.msg)
			default:
				panic(r)
			}
		}
		res.Obligations = fc.obls
	}()
	st := &State{reach: TTrue, heaps: map[string]*Term{}, ghosts: map[string]*Term{}}
	st.next = fc.sc.Fresh("next0", SInt)
	fc.next0 = st.next
	for _, s := range []Sort{SInt, SBool, SStr, SPtr, SSlice, SIface, SFlt} {
		fc.leafHeap(st, s)
	}
	n := 0
	ev := &EvalCtx{fc: fc, cur: st, old: st, binds: map[string]TV{}, qn: &n}
	if b.Pkg != "" {
		ev.pkg = e.typesPkg(b.Pkg)
	}
	for _, c := range b.ClausesOf("assumes") {
		fc.sc.Assert(ev.evalBool(c.Expr))
	}
	body := b.PureBody
	// top-level universal quantifiers become fresh constants (keeps the goal as quantifier-free as possible)
	for {
		q, ok := body.(EQuant)
		if !ok || !q.Forall {
			break
		}
		binds := map[string]TV{}
		for _, v := range q.Vars {
			t := ev.resolveType(v.Type)
			s, ok := leafSort(t)
			if !ok {
				panic(evalErr{"lemma variable " + v.Name + " must have a scalar type"})
			}
			c := fc.sc.Fresh("lv_"+v.Name, s)
			if v.Type != "mathint" {
				fc.sc.Assert(fc.typeFacts(st, scalar(c), t))
			}
			binds[v.Name] = TV{V: scalar(c), T: t}
		}
		ev = ev.with(binds)
		body = q.Body
	}
	goal := ev.evalBool(body)
	fc.oblige(st, "lemma", "", goal, token.Position{Filename: b.File, Line: b.Line}, "lemma "+b.Name)
	return res
}

func fileExists(p string) bool {
	_, err := os.Stat(p)
	return err == nil
}


// parseGhostVar: `ghostvar name int|bool|any`
func parseGhostVar(c *Clause) (string, Sort) {
	f := strings.Fields(c.Text)
	if len(f) != 2 {
		unsup("%s:%d: ghostvar needs `name sort`", c.File, c.Line)
	}
	switch f[1] {
	case "int", "mathint":
		return f[0], SInt
	case "bool":
		return f[0], SBool
	case "any":
		return f[0], SIface
	}
	unsup("%s:%d: ghostvar sort %s (int, bool, any)", c.File, c.Line, f[1])
	return "", SInt
}


// initOnlyGlobal: every store to g in the whole program is in its package's init function, and that store
// writes a function (closure / function value), not nil.
func (e *Engine) initOnlyGlobal(g *ssa.Global) bool {
	if e.initOnly == nil {
		e.initOnly = map[*ssa.Global]bool{}
		bad := map[*ssa.Global]bool{}
		good := map[*ssa.Global]bool{}
		for f := range ssautil.AllFunctions(e.prog) {
			for _, b := range f.Blocks {
				for _, in := range b.Instrs {
					switch x := in.(type) {
					case *ssa.Store:
						if gg, ok := x.Addr.(*ssa.Global); ok {
							isInit := f.Name() == "init" && f.Pkg == gg.Pkg
							if !isInit {
								bad[gg] = true
								continue
							}
							switch x.Val.(type) {
							case *ssa.MakeClosure, *ssa.Function:
								good[gg] = true
							default:
								bad[gg] = true
							}
						}
					default:
						// address of the global escaping anywhere else than a load makes it mutable
						if v, ok := in.(ssa.Instruction); ok {
							for _, op := range v.Operands(nil) {
								if gg, ok := (*op).(*ssa.Global); ok {
									if u, isLoad := in.(*ssa.UnOp); !(isLoad && u.Op == token.MUL) {
										bad[gg] = true
									}
								}
							}
						}
					}
				}
			}
		}
		for gg := range good {
			if !bad[gg] {
				e.initOnly[gg] = true
			}
		}
	}
	return e.initOnly[g]
}


// fnTypesPkg: the go/types package that declares fn (instances of generics have no ssa package of their own).
func fnTypesPkg(fn *ssa.Function) *types.Package {
	if fn.Pkg != nil {
		return fn.Pkg.Pkg
	}
	if o := fn.Origin(); o != nil && o.Pkg != nil {
		return o.Pkg.Pkg
	}
	if fn.Object() != nil {
		return fn.Object().Pkg()
	}
	if fn.Parent() != nil {
		return fnTypesPkg(fn.Parent())
	}
	return nil
}
