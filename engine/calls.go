package main

import (
	"os"
	"fmt"
	"go/token"
	"go/types"
	"strings"

	"golang.org/x/tools/go/ssa"
)

type closureRec struct {
	mc    *ssa.MakeClosure
	binds []Val
}

func (e *Engine) noteClosure(fc *FnCtx, id *Term, mc *ssa.MakeClosure, fr *Frame) {
	rec := &closureRec{mc: mc}
	for _, b := range mc.Bindings {
		rec.binds = append(rec.binds, fr.val(b))
	}
	fc.closures[id.S] = rec
}

func ifaceMethodKey(c *ssa.CallCommon) string {
	recv := c.Value.Type()
	return "(" + types.TypeString(recv, nil) + ")." + c.Method.Name()
}

// callspec clauses of the function executing the call:
//   callspec <Name> requires <expr>     obligation at every call of a function / method called <Name>
//   callspec <Name> preserves e1, e2    assumption about such calls (recorded as an assumption)
// <expr> is evaluated in the function's own scope with arg0, arg1, ... (and recv for interface calls) bound.
type callspecRec struct {
	kind string
	text string
	cl   *Clause
	fr   *Frame
}

func (fr *Frame) callspecs(name string) []callspecRec {
	var out []callspecRec
	for f := fr; f != nil; f = f.parent {
		if f.spec != nil {
			for _, cl := range f.spec.ClausesOf("callspec") {
				flds := strings.Fields(cl.Text)
				if len(flds) < 3 || flds[0] != name {
					continue
				}
				rest := strings.TrimSpace(strings.TrimPrefix(strings.TrimSpace(strings.TrimPrefix(cl.Text, flds[0])), flds[1]))
				out = append(out, callspecRec{kind: flds[1], text: rest, cl: cl, fr: f})
			}
		}
		// closures look further up; so does a named callee that has no contract of its own and is executed as
		// part of its caller's body (inlined): its calls are the caller's calls
		if f.fn.Parent() == nil && !(f.spec == nil && f.parent != nil) {
			break
		}
	}
	return out
}

func (fr *Frame) call(site ssa.Instruction, c *ssa.CallCommon, st *State) []Val {
	name := ""
	if c.IsInvoke() {
		name = c.Method.Name()
	} else if f := c.StaticCallee(); f != nil {
		name = f.Name()
	} else if b, ok := c.Value.(*ssa.Builtin); ok && b.Name() == "close" {
		name = "close" // closing a channel is a signal to other goroutines: call-site conditions may speak about it
	}
	var cs []callspecRec
	if name != "" {
		cs = fr.callspecs(name)
	}
	if len(cs) == 0 {
		return fr.call0(site, c, st)
	}
	fc := fr.fc
	binds := map[string]TV{}
	for i, a := range c.Args {
		binds[fmt.Sprintf("arg%d", i)] = TV{V: fr.val(a), T: a.Type()}
	}
	if c.IsInvoke() {
		binds["recv"] = TV{V: fr.val(c.Value), T: c.Value.Type()}
	}
	parse := func(r callspecRec, t string) Expr {
		e, err := ParseExpr(t)
		if err != nil {
			unsup("%s:%d: %v", r.cl.File, r.cl.Line, err)
		}
		return e
	}
	for _, r := range cs {
		if r.kind == "requires" {
			ev := r.fr.evalCtx(st, r.fr.entry).with(binds)
			if r.fr == fr {
				ev.at = site.Block() // locals of the function are visible as they are at the call
				fr.siteLimit = site
			}
			g := ev.evalBool(parse(r, r.text))
			fr.siteLimit = nil
			fc.oblige(st, "callsite", fr.path+"at:"+name+"/", g, fr.pos(site), "call-site condition for "+name+": "+r.text)
		}
	}
	pre := st.clone()
	res := fr.call0(site, c, st)
	for _, r := range cs {
		switch r.kind {
		case "preserves":
			fc.note("calls of " + name + " in " + shortName(funcKey(r.fr.fn)) + " assumed to preserve: " + r.text)
			for _, part := range splitTop(r.text, ',') {
				e := parse(r, strings.TrimSpace(part))
				a := r.fr.evalCtx(pre, r.fr.entry).with(binds).eval(e)
				b := r.fr.evalCtx(st, r.fr.entry).with(binds).eval(e)
				fc.assume(st, preservedFact(a.V, b.V))
			}
		case "sets":
			// ghost assignment after the call: `callspec Pop sets pending = result.1 ? 1 : 0, last = result.0`
			rb := map[string]TV{}
			if sig, ok := c.Value.Type().Underlying().(*types.Signature); ok || c.IsInvoke() {
				if c.IsInvoke() {
					sig = c.Method.Type().(*types.Signature)
				}
				fr.bindResults(rb, res, sig)
			}
			for _, part := range splitTop(r.text, ',') {
				k := strings.Index(part, "=")
				if k < 0 {
					unsup("%s:%d: callspec sets needs `name = expr`", r.cl.File, r.cl.Line)
				}
				gname := strings.TrimSpace(part[:k])
				v := r.fr.evalCtx(st, pre).with(binds).with(rb).eval(parse(r, strings.TrimSpace(part[k+1:])))
				if _, had := st.ghosts["gv:"+gname]; !had {
					fc.ghost(st, "gv:"+gname, v.V.T.Sort)
				}
				st.ghosts["gv:"+gname] = fc.sc.Define("gv_"+gname, v.V.T)
			}
		case "ensures":
			fc.note("calls of " + name + " in " + shortName(funcKey(r.fr.fn)) + " assumed to ensure: " + r.text)
			rb := map[string]TV{}
			if sig, ok := c.Value.Type().Underlying().(*types.Signature); ok || c.IsInvoke() {
				if c.IsInvoke() {
					sig = c.Method.Type().(*types.Signature)
				}
				fr.bindResults(rb, res, sig)
			}
			ev := r.fr.evalCtx(st, pre).with(binds).with(rb)
			fc.assume(st, ev.evalBool(parse(r, r.text)))
		}
	}
	return res
}

// call0 executes a call instruction; returns result values (nil for no results).
func (fr *Frame) call0(site ssa.Instruction, c *ssa.CallCommon, st *State) []Val {
	fc := fr.fc
	var args []Val
	for _, a := range c.Args {
		args = append(args, fr.val(a))
	}
	if b, ok := c.Value.(*ssa.Builtin); ok {
		return fr.callBuiltin(site, b, c, args, st)
	}
	if c.IsInvoke() {
		recv := fr.val(c.Value)
		key := ifaceMethodKey(c)
		fc.oblige(st, "nil", fr.path, Ne(ITag(recv.T), IntLit(0)), fr.pos(site), "method call on nil interface ("+c.Method.Name()+")")
		if sp := fc.eng.db.Funcs[key]; sp != nil {
			sig := c.Method.Type().(*types.Signature)
			names := []string{"self"}
			tys := []types.Type{c.Value.Type()}
			for i := 0; i < sig.Params().Len(); i++ {
				names = append(names, sig.Params().At(i).Name())
				tys = append(tys, sig.Params().At(i).Type())
			}
			if len(sp.ParamNames) > 0 {
				if len(sp.ParamNames) != len(names) {
					unsup("%s:%d: contract lists %d parameters, method has %d (incl. self)", sp.File, sp.Line, len(sp.ParamNames), len(names))
				}
				names = sp.ParamNames
			}
			return fr.callByContract(site, key, sp, names, tys, append([]Val{recv}, args...), sig, st, c.Method.Pkg())
		}
		// devirtualise when the dynamic type tag is a known numeral
		if tv, ok := numVal(ITag(recv.T)); ok && tv.IsInt64() && tv.Int64() >= 1 && int(tv.Int64()) <= len(fc.eng.ti.idxType) {
			ct := fc.eng.ti.idxType[tv.Int64()-1]
			if m := fc.eng.prog.LookupMethod(ct, c.Method.Pkg(), c.Method.Name()); m != nil {
				rv := fc.unbox(IPay(recv.T), ct)
				return fr.callStatic(site, m, append([]Val{rv}, args...), st)
			}
		}
		// try to devirtualise when the dynamic type is syntactically known (MakeInterface of concrete type)
		if mi, ok := c.Value.(*ssa.MakeInterface); ok {
			if m := fc.eng.prog.LookupMethod(mi.X.Type(), c.Method.Pkg(), c.Method.Name()); m != nil {
				return fr.callStatic(site, m, append([]Val{fr.val(mi.X)}, args...), st)
			}
		}
		if fc.eng.opaqueIface(c) {
			return fr.opaqueResults(site, c.Method.Type().(*types.Signature), st, key)
		}
		unsup("%s: call of interface method %s without a contract", fr.pos(site), key)
	}
	if f := c.StaticCallee(); f != nil {
		if mc, ok := c.Value.(*ssa.MakeClosure); ok {
			var binds []Val
			for _, b := range mc.Bindings {
				binds = append(binds, fr.val(b))
			}
			return fr.inline(site, f, args, binds, st)
		}
		return fr.callStatic(site, f, args, st)
	}
	// dynamic call through a function value
	fv := fr.val(c.Value)
	if rec, ok := fc.closures[fv.T.S]; ok {
		return fr.inline(site, rec.mc.Fn.(*ssa.Function), args, rec.binds, st)
	}
	return fr.callFuncValue(site, c, fv, args, st)
}

func (fr *Frame) callStatic(site ssa.Instruction, f *ssa.Function, args []Val, st *State) []Val {
	fc := fr.fc
	key := funcKey(f)
	if f.Signature.Recv() != nil {
		if _, isPtr := f.Signature.Recv().Type().Underlying().(*types.Pointer); isPtr && len(args) > 0 && args[0].T != nil && args[0].T.Sort == SPtr {
			if !fc.eng.nilReceiverOK(f) {
				fr.checkNonNil(st, args[0].T, site, "method "+f.Name()+" called on nil receiver")
			}
		}
	}
	if name := fc.eng.builtinModel(f); name != "" {
		return fr.callModel(site, name, f, args, st)
	}
	sp := fc.eng.db.Funcs[key]
	if sp == nil && f.Origin() != nil {
		if osp := fc.eng.db.Funcs[stripTypeArgs(funcKey(f.Origin()))]; osp != nil {
			sp = osp
			key = stripTypeArgs(funcKey(f.Origin()))
		}
	}
	if sp == nil && f.Origin() != nil {
		// instantiation of a generic function: the contract is written on the generic origin
		sp = fc.eng.db.Funcs[funcKey(f.Origin())]
		if sp != nil {
			key = funcKey(f.Origin())
		}
	}
	if sp != nil && !sp.Has("inline", "") {
		names, tys := paramNames(f, sp)
		var tpkg *types.Package
		if f.Pkg != nil {
			tpkg = f.Pkg.Pkg
		} else if f.Object() != nil {
			tpkg = f.Object().Pkg()
		}
		return fr.callByContract(site, key, sp, names, tys, args, f.Signature, st, tpkg)
	}
	if fc.eng.isOpaquePure(f) {
		return fr.opaqueResults(site, f.Signature, st, key)
	}
	if len(f.Blocks) > 0 {
		return fr.inline(site, f, args, nil, st)
	}
	unsup("%s: call of %s: no contract, no body", fr.pos(site), key)
	return nil
}

func paramNames(f *ssa.Function, sp *Block) ([]string, []types.Type) {
	var names []string
	var tys []types.Type
	if len(f.Params) > 0 {
		for _, p := range f.Params {
			names = append(names, p.Name())
			tys = append(tys, p.Type())
		}
	} else {
		sig := f.Signature
		if sig.Recv() != nil {
			names = append(names, sig.Recv().Name())
			tys = append(tys, sig.Recv().Type())
		}
		for i := 0; i < sig.Params().Len(); i++ {
			names = append(names, sig.Params().At(i).Name())
			tys = append(tys, sig.Params().At(i).Type())
		}
	}
	if sp != nil && len(sp.ParamNames) > 0 {
		if len(sp.ParamNames) != len(names) {
			unsup("%s:%d: contract lists %d parameters, function has %d", sp.File, sp.Line, len(sp.ParamNames), len(names))
		}
		names = sp.ParamNames
	}
	return names, tys
}

func (fr *Frame) opaqueResults(site ssa.Instruction, sig *types.Signature, st *State, key string) []Val {
	fc := fr.fc
	fc.note("opaque call (arbitrary result, no heap effect): " + key)
	var res []Val
	for i := 0; i < sig.Results().Len(); i++ {
		t := sig.Results().At(i).Type()
		v := fc.freshVal("opq", t)
		fc.assume(st, fc.typeFacts(st, v, t))
		res = append(res, v)
	}
	// results may reference freshly allocated objects
	nn := fc.sc.Fresh("next", SInt)
	fc.sc.Assert(Ge(nn, st.next))
	st.next = nn
	for i, v := range res {
		fc.assume(st, fc.typeFacts(st, v, sig.Results().At(i).Type()))
	}
	return res
}

// callByContract: assert requires, havoc modifies, assume ensures.
func (fr *Frame) callByContract(site ssa.Instruction, key string, sp *Block, names []string, tys []types.Type, args []Val, sig *types.Signature, st *State, pkg *types.Package) []Val {
	fc := fr.fc
	fc.usedContracts[key] = true
	fc.eng.db.UsedKeys["func:"+key] = true
	short := shortName(key)
	binds := map[string]TV{}
	for i, n := range names {
		if n == "" || n == "_" {
			continue
		}
		if i < len(args) {
			binds[n] = TV{V: args[i], T: tys[i]}
		}
	}
	// the callee's local ghost variables mean nothing to the caller: unconstrained values
	for _, c := range sp.ClausesOf("ghostvar") {
		n, so := parseGhostVar(c)
		tv := TV{V: scalar(fc.sc.Fresh("gvx_"+n, so))}
		if so == SIface {
			tv.T = types.NewInterfaceType(nil, nil)
		}
		binds[n] = tv
	}
	mkEv := func(cur, old *State) *EvalCtx {
		n := 0
		return &EvalCtx{fc: fc, cur: cur, old: old, binds: binds, pkg: pkg, qn: &n}
	}
	path := fr.path
	for _, c := range sp.ClausesOf("requires") {
		g := fr.safeEvalBool(mkEv(st, st), c)
		fc.oblige(st, "pre", path+"call:"+short+"/", g, fr.pos(site), "precondition of "+short+": "+c.Text)
	}
	pre := st.clone()
	preNFacts := len(fc.sc.facts)
	var items []locItem
	for _, c := range sp.ClausesOf("modifies") {
		items = append(items, fr.safeEvalLocs(mkEv(st, st), c)...)
	}
	for _, it := range items {
		fr.checkWrite(st, site, it, "callee "+short+" modifies")
	}
	nn := fc.sc.Fresh("next", SInt)
	fc.sc.Assert(Ge(nn, st.next))
	fc.hvBound = nn
	fc.havocItems(st, items)
	fc.hvBound = nil
	st.next = nn
	// objects the callee allocated and initialised (see freshRegion)
	if os.Getenv("VERIF_FRESHALL") != "" {
		fc.freshRegion(st, pre.next, nn)
	} else {
		for _, c := range sp.ClausesOf("ensures") {
			if strings.Contains(c.Text, "fresh(") || strings.Contains(c.Text, "allocated") {
				fc.freshRegion(st, pre.next, nn)
				break
			}
		}
	}
	// lock effects
	for _, c := range sp.ClausesOf("acquires") {
		tv := fr.evalAddrClause(mkEv(pre, pre), c)
		h := fc.heldSet(st)
		fc.oblige(st, "lock", path, Not(Select(h, tv)), fr.pos(site), "lock not already held (self-deadlock)")
		st.ghosts["held"] = fc.sc.Define("held", Store(h, tv, TTrue))
	}
	for _, c := range sp.ClausesOf("releases") {
		tv := fr.evalAddrClause(mkEv(pre, pre), c)
		h := fc.heldSet(st)
		fc.oblige(st, "lock", path, Select(h, tv), fr.pos(site), "unlock of a lock that is held")
		st.ghosts["held"] = fc.sc.Define("held", Store(h, tv, TFalse))
	}
	// ghost counters: `ghostinc name(key)` adds one to the ghost map `name` at `key`
	for _, c := range sp.ClausesOf("ghostinc") {
		// a ghost effect of the callee is an effect of the caller: it must be in the caller's frame
		if k := strings.Index(c.Text, "("); k > 0 {
			fr.checkWrite(st, site, locItem{kind: "ghost", ghost: "gmap:" + strings.TrimSpace(c.Text[:k])}, "ghost effect of callee "+short)
		}
		if strings.Contains(c.Text, " when ") {
			continue // applied below, once the results exist
		}
		fr.ghostInc(mkEv(pre, pre), c, st)
	}
	var res []Val
	for i := 0; i < sig.Results().Len(); i++ {
		t := sig.Results().At(i).Type()
		v := fc.freshVal("res_"+sanitize(short), t)
		res = append(res, v)
	}
	for i, v := range res {
		fc.assume(st, fc.typeFacts(st, v, sig.Results().At(i).Type()))
	}
	fr.bindResults(binds, res, sig)
	for _, c := range sp.ClausesOf("ghostinc") {
		if strings.Contains(c.Text, " when ") {
			fr.ghostInc(mkEv(pre, pre), c, st)
		}
	}
	for _, c := range sp.ClausesOf("ensures") {
		fc.assume(st, fr.safeEvalBool(mkEv(st, pre), c))
	}
	if sp.Has("effects", "noreturn") {
		st.reach = TFalse
	} else if len(sp.ClausesOf("ensures")) > 0 && len(fr.unrolling) == 0 {
		// vacuity guard: the callee's contract (posts against its frame) must not make the path infeasible.
		// One cover per callee and function (the first call site).
		if fc.callCovered == nil {
			fc.callCovered = map[string]bool{}
		}
		if !fc.callCovered[key] {
			fc.callCovered[key] = true
			fc.covers = append(fc.covers, &Obligation{Name: fmt.Sprintf("%s/%scover#call:%s", fc.key, fr.path, short), Kind: "cover", Func: fc.key,
				NFacts: len(fc.sc.facts), NegGoal: st.reach.S, PreNFacts: preNFacts, PreGoal: pre.reach.S, Script: fc.sc, Pos: fr.pos(site),
				Desc: "the contract of " + short + " is consistent here (its postconditions do not contradict its frame)"})
		}
	}
	fr.noteEffects(site, sp, short, st)
	return res
}

func (fr *Frame) evalAddrClause(ev *EvalCtx, c *Clause) (res *Term) {
	defer func() {
		if r := recover(); r != nil {
			if ee, ok := r.(evalErr); ok {
				panic(unsupported{fmt.Sprintf("%s:%d: %s (in %q)", c.File, c.Line, ee.msg, c.Text)})
			}
			panic(r)
		}
	}()
	e, err := ParseExpr(c.Text)
	if err != nil {
		panic(evalErr{err.Error()})
	}
	tv := ev.eval(e)
	if tv.Addr == nil {
		panic(evalErr{"not addressable"})
	}
	return tv.Addr
}

func (fr *Frame) bindResults(binds map[string]TV, res []Val, sig *types.Signature) {
	switch len(res) {
	case 0:
	case 1:
		binds["result"] = TV{V: res[0], T: sig.Results().At(0).Type()}
	default:
		binds["result"] = TV{V: Val{Fs: res}, T: sig.Results()}
	}
	for i := 0; i < sig.Results().Len(); i++ {
		if n := sig.Results().At(i).Name(); n != "" && n != "_" {
			if _, clash := binds[n]; !clash {
				binds[n] = TV{V: res[i], T: sig.Results().At(i).Type()}
			}
		}
	}
}

func shortName(key string) string {
	// strip package paths: keep last path element
	var sb strings.Builder
	i := 0
	for i < len(key) {
		j := i
		for j < len(key) && (isIdentByte(key[j]) || key[j] == '/' || key[j] == '.' || key[j] == '-') {
			j++
		}
		if j > i {
			seg := key[i:j]
			if k := strings.LastIndex(seg, "/"); k >= 0 {
				seg = seg[k+1:]
			}
			sb.WriteString(seg)
			i = j
			continue
		}
		sb.WriteByte(key[i])
		i++
	}
	return sb.String()
}

func isIdentByte(c byte) bool {
	return c == '_' || c == '$' || (c >= 'a' && c <= 'z') || (c >= 'A' && c <= 'Z') || (c >= '0' && c <= '9')
}

// inline executes the callee's real body in place.
func (fr *Frame) inline(site ssa.Instruction, f *ssa.Function, args []Val, binds []Val, st *State) []Val {
	fc := fr.fc
	if len(f.Blocks) == 0 {
		unsup("%s: cannot inline %s (no body)", fr.pos(site), f)
	}
	for p := fr; p != nil; p = p.parent {
		if p.fn == f {
			unsup("%s: recursive call of %s needs a contract", fr.pos(site), f)
		}
	}
	if fr.depth > 10 {
		unsup("%s: inlining too deep at %s", fr.pos(site), f)
	}
	fc.inlined[funcKey(f)] = true
	fr.ncall++
	sub := fc.newFrame(f, fr, fmt.Sprintf("%scall#%d:%s/", fr.path, fr.ncall, shortName(funcKey(f))))
	sub.inheritedWC = fr.activeConstraints(site.Block())
	for i, fv := range f.FreeVars {
		if i < len(binds) {
			sub.freeBind[fv] = binds[i]
		}
	}
	exit, res := sub.run(st, args)
	*st = *exit
	return res
}

func (fr *Frame) runDefers(in *ssa.RunDefers, st *State) {
	fc := fr.fc
	for i := len(fr.defers) - 1; i >= 0; i-- {
		d := fr.defers[i]
		// execute under the condition that the defer statement was reached
		if d.cond.S != "true" && d.cond.S != fr.entry.reach.S {
			// conditional defer: run on a copy, then merge
			yes := st.clone()
			yes.reach = fc.sc.Define("defcond", And(st.reach, d.cond))
			no := st.clone()
			no.reach = fc.sc.Define("defskip", And(st.reach, Not(d.cond)))
			fr.runDeferred(d, yes)
			m := fc.merge([]*State{yes, no}, []*Term{yes.reach, no.reach})
			*st = *m
			continue
		}
		fr.runDeferred(d, st)
	}
}

func (fr *Frame) runDeferred(d deferRec, st *State) {
	fc := fr.fc
	c := d.call
	if b, ok := c.Value.(*ssa.Builtin); ok {
		fr.callBuiltin(d.site, b, c, d.args, st)
		return
	}
	if c.IsInvoke() {
		unsup("deferred interface call")
	}
	if f := c.StaticCallee(); f != nil {
		if mc, ok := c.Value.(*ssa.MakeClosure); ok {
			rec := fc.closures[d.fnv.T.S]
			var binds []Val
			if rec != nil {
				binds = rec.binds
			} else {
				for _, b := range mc.Bindings {
					binds = append(binds, fr.val(b))
				}
			}
			fr.inline(d.site, f, d.args, binds, st)
			return
		}
		fr.callStatic(d.site, f, d.args, st)
		return
	}
	if rec, ok := fc.closures[d.fnv.T.S]; ok {
		fr.inline(d.site, rec.mc.Fn.(*ssa.Function), d.args, rec.binds, st)
		return
	}
	unsup("deferred dynamic call")
}

// callFuncValue: call through a function value of unknown identity. Supported for parameters that have
// a `funcspec` clause in the enclosing contract.
func (fr *Frame) callFuncValue(site ssa.Instruction, c *ssa.CallCommon, fv Val, args []Val, st *State) []Val {
	fc := fr.fc
	top := fr
	for top.parent != nil {
		top = top.parent
	}
	var pname string
	if p, ok := c.Value.(*ssa.Parameter); ok {
		pname = p.Name()
	}
	if fvv, ok := c.Value.(*ssa.FreeVar); ok {
		pname = fvv.Name()
	}
	// a captured (by reference) or address-taken function variable: *freevar / *alloc; a function stored in a
	// struct field: the field's name
	if u, ok := c.Value.(*ssa.UnOp); ok && u.Op == token.MUL {
		switch x := u.X.(type) {
		case *ssa.FreeVar:
			pname = x.Name()
		case *ssa.Alloc:
			pname = x.Comment
		case *ssa.FieldAddr:
			if pt, ok := x.X.Type().Underlying().(*types.Pointer); ok {
				if stt, ok := pt.Elem().Underlying().(*types.Struct); ok {
					pname = stt.Field(x.Field).Name()
				}
			}
		}
	}
	var spec *Clause
	var specFrame *Frame
	// the funcspec may be declared on this function or on an enclosing one (closures, inlined callees)
	for f := fr; f != nil && spec == nil && pname != ""; f = f.parent {
		if f.spec == nil {
			continue
		}
		for _, cl := range f.spec.ClausesOf("funcspec") {
			if strings.HasPrefix(cl.Text, pname+" ") || cl.Text == pname {
				spec = cl
				specFrame = f
			}
		}
	}
	if spec == nil {
		// function values of opaque external types (context.CancelFunc, ...) behave like opaque calls
		if nt, ok := types.Unalias(c.Value.Type()).(*types.Named); ok && nt.Obj().Pkg() != nil && fc.eng.opaquePath(nt.Obj().Pkg().Path()) {
			fc.oblige(st, "nil", fr.path, Ne(fv.T, IntLit(0)), fr.pos(site), "call of nil function value")
			return fr.opaqueResults(site, c.Value.Type().Underlying().(*types.Signature), st, nt.Obj().Pkg().Path()+"."+nt.Obj().Name())
		}
		unsup("%s: dynamic call through %s without funcspec", fr.pos(site), c.Value.Name())
	}
	fc.oblige(st, "nil", fr.path, Ne(fv.T, IntLit(0)), fr.pos(site), "call of nil function value")
	fc.note("callback " + pname + " in " + shortName(funcKey(fr.fn)) + ": " + spec.Text + " (assumed of every callback passed)")
	rest := strings.TrimSpace(strings.TrimPrefix(spec.Text, pname))
	restAll := rest
	if strings.HasPrefix(rest, "maypanic") {
		rest = strings.TrimSpace(strings.TrimPrefix(rest, "maypanic"))
	}
	// count the invocation
	cnt := "calls_" + pname
	n := fc.ghostInt(st, cnt)
	pre := st.clone()
	nn := fc.sc.Fresh("next", SInt)
	fc.sc.Assert(Ge(nn, st.next))
	if !strings.HasPrefix(rest, "pure") {
		fc.hvBound = nn
		fc.havocItems(st, []locItem{{kind: "any-old"}})
		fc.hvBound = nil
	}
	// the invocation counter is a ghost effect of this function: it must be in its frame (otherwise a contract
	// that talks about the counter would contradict its own modifies clause at the callers)
	fr.checkWrite(st, site, locItem{kind: "ghost", ghost: cnt}, "callback counter "+cnt)
	st.ghosts[cnt] = fc.sc.Define(cnt, Add(n, IntLit(1)))
	st.next = nn
	if strings.HasPrefix(rest, "preserves") {
		for _, part := range splitTop(strings.TrimSpace(rest[len("preserves"):]), ',') {
			e, err := ParseExpr(strings.TrimSpace(part))
			if err != nil {
				unsup("%s:%d: %v", spec.File, spec.Line, err)
			}
			evPre := specFrame.evalCtx(pre, specFrame.entry)
			evPost := specFrame.evalCtx(st, specFrame.entry)
			a := evPre.eval(e)
			b := evPost.eval(e)
			fc.assume(st, preservedFact(a.V, b.V))
		}
	}
	sig := c.Value.Type().Underlying().(*types.Signature)
	var res []Val
	for i := 0; i < sig.Results().Len(); i++ {
		t := sig.Results().At(i).Type()
		v := fc.freshVal("cbres", t)
		fc.assume(st, fc.typeFacts(st, v, t))
		res = append(res, v)
	}
	if strings.HasPrefix(restAll, "maypanic") {
		// user code may panic: second outcome, handled by the nearest recovering frame
		p := fc.sc.Fresh("panics", SBool)
		ps := st.clone()
		ps.reach = fc.sc.Define("reach", And(st.reach, p))
		fr.panics = append(fr.panics, ps)
		st.reach = fc.sc.Define("reach", And(st.reach, Not(p)))
	}
	return res
}

// ---------------------------------------------------------------------------------------------
// Go builtins
// ---------------------------------------------------------------------------------------------

func (fr *Frame) callBuiltin(site ssa.Instruction, b *ssa.Builtin, c *ssa.CallCommon, args []Val, st *State) []Val {
	fc := fr.fc
	ti := fc.eng.ti
	switch b.Name() {
	case "len":
		x := args[0].T
		switch u := c.Args[0].Type().Underlying().(type) {
		case *types.Slice:
			return []Val{scalar(SLen(x))}
		case *types.Map:
			fr.guardCheck(st, site, c.Args[0], false)
			return []Val{scalar(fc.mapLen(st, x, u))}
		case *types.Basic:
			return []Val{scalar(StrLen(x))}
		case *types.Chan:
			v := fc.sc.Fresh("chanlen", SInt)
			fc.assume(st, Ge(v, IntLit(0)))
			return []Val{scalar(v)}
		case *types.Pointer:
			if at, ok := u.Elem().Underlying().(*types.Array); ok {
				return []Val{scalar(IntLit(at.Len()))}
			}
		case *types.Array:
			return []Val{scalar(IntLit(u.Len()))}
		}
		unsup("len of %s", c.Args[0].Type())
	case "cap":
		switch c.Args[0].Type().Underlying().(type) {
		case *types.Slice:
			return []Val{scalar(SCap(args[0].T))}
		}
		unsup("cap of %s", c.Args[0].Type())
	case "min", "max":
		cur := args[0].T
		for _, a := range args[1:] {
			if b.Name() == "min" {
				cur = Ite(Le(cur, a.T), cur, a.T)
			} else {
				cur = Ite(Ge(cur, a.T), cur, a.T)
			}
		}
		return []Val{scalar(cur)}
	case "append":
		// append(s, elems...) where the second argument is a slice (possibly nil) or a string
		st0 := c.Args[0].Type().Underlying().(*types.Slice)
		s := args[0].T
		w := ti.LayoutOf(st0.Elem()).Width
		var addLen *Term
		isStr := false
		if _, ok := c.Args[1].Type().Underlying().(*types.Basic); ok {
			addLen = StrLen(args[1].T)
			isStr = true
		} else {
			addLen = SLen(args[1].T)
		}
		fc.note("append returns a freshly allocated backing array (aliasing of spare capacity not modelled)")
		if n, ok := numVal(addLen); ok && !isStr && n.IsInt64() && n.Int64() <= 4 && peek(SOff(s)).S == "0" {
			// small concrete addition: the new array is the old row with the new elements stored behind it -
			// an explicit store chain, so later reads resolve syntactically (chains of appends stay executable)
			obj := fr.allocRaw(st)
			newLen := Add(SLen(s), addLen)
			newCap := fc.sc.Fresh("appcap", SInt)
			fc.assume(st, And(Ge(newCap, newLen), Le(newCap, maxAlloc)))
			a := args[1].T
			lay := ti.LayoutOf(st0.Elem())
			for _, lf := range lay.Leaves {
				h := fc.leafHeap(st, lf.Sort)
				row := Select(h, SArr(s))
				for j := int64(0); j < n.Int64(); j++ {
					src := HSel(h, SArr(a), Add(SOff(a), IntLit(j*w+lf.Off)))
					row = Store(row, Add(Mul(Add(SLen(s), IntLit(j)), IntLit(w)), IntLit(lf.Off)), src)
				}
				fc.setHeap(st, leafHeapName(lf.Sort), Store(h, obj, row))
			}
			return []Val{scalar(MkSlice(obj, IntLit(0), newLen, newCap))}
		}
		obj := fr.allocRaw(st)
		newLen := fc.sc.Define("applen", Add(SLen(s), addLen))
		newCap := fc.sc.Fresh("appcap", SInt)
		fc.assume(st, And(Ge(newCap, newLen), Le(newCap, maxAlloc)))
		// contents: new[i] = old[i] for i < len(s); new[len(s)+j] = add[j]
		lay := ti.LayoutOf(st0.Elem())
		for li, lf := range lay.Leaves {
			_ = li
			h := fc.leafHeap(st, lf.Sort)
			row := fc.sc.Fresh("approw", ArrSort(SInt, lf.Sort))
			oldRow := fc.sc.Define("oldrow", Select(h, SArr(s)))
			// one fact per leaf heap, triggered by ANY read of the new row:
			//   row[k] = old[off+k]            for 0 <= k < len(s)*w
			//   row[k] = add[offa + k - base]  for base <= k < base + addlen*w   (base = len(s)*w)
			base := fc.sc.Define("appbase", Mul(SLen(s), IntLit(w)))
			lim := fc.sc.Define("applim", Add(base, Mul(addLen, IntLit(w))))
			var addTerm string
			if isStr {
				addTerm = fmt.Sprintf("(strbyte %s (- k!q %s))", args[1].T.S, base.S)
			} else {
				a := args[1].T
				addRow := fc.sc.Define("addrow", Select(h, SArr(a)))
				addTerm = fmt.Sprintf("(select %s (+ %s (- k!q %s)))", addRow.S, SOff(a).S, base.S)
			}
			fc.sc.Assert(mk(SBool, fmt.Sprintf("(forall ((k!q Int)) (! (and (=> (and (<= 0 k!q) (< k!q %s)) (= (select %s k!q) (select %s (+ %s k!q)))) (=> (and (<= %s k!q) (< k!q %s)) (= (select %s k!q) %s))) :pattern ((select %s k!q))))",
				base.S, row.S, oldRow.S, SOff(s).S, base.S, lim.S, row.S, addTerm, row.S)))
			// the same facts over elt_S terms (what quantified specs are triggered by)
			if w == 1 {
				en := "elt_" + string(lf.Sort)
				fc.sc.Assert(mk(SBool, fmt.Sprintf("(forall ((j!q Int)) (! (=> (and (<= 0 j!q) (< j!q %s)) (= (%s %s 0 j!q) (%s %s %s j!q))) :pattern ((%s %s 0 j!q)) :pattern ((%s %s %s j!q))))",
					base.S, en, row.S, en, oldRow.S, SOff(s).S, en, row.S, en, oldRow.S, SOff(s).S)))
				if !isStr {
					a := args[1].T
					addRow := Select(h, SArr(a))
					if n, ok := numVal(addLen); ok && n.IsInt64() && n.Int64() <= 4 {
						for j := int64(0); j < n.Int64(); j++ {
							fc.assume(st, Eq(app(lf.Sort, en, row, IntLit(0), Add(base, IntLit(j))), app(lf.Sort, en, addRow, SOff(a), IntLit(j))))
						}
					}
				}
			}
			fc.setHeap(st, leafHeapName(lf.Sort), Store(h, obj, row))
		}
		return []Val{scalar(MkSlice(obj, IntLit(0), newLen, newCap))}
	case "copy":
		dst := args[0].T
		dt := c.Args[0].Type().Underlying().(*types.Slice)
		w := ti.LayoutOf(dt.Elem()).Width
		var srcLen *Term
		isStr := false
		if _, ok := c.Args[1].Type().Underlying().(*types.Basic); ok {
			srcLen = StrLen(args[1].T)
			isStr = true
		} else {
			srcLen = SLen(args[1].T)
		}
		n := fc.sc.Define("copyn", Ite(Le(SLen(dst), srcLen), SLen(dst), srcLen))
		fr.checkWrite(st, site, locItem{kind: "row", obj: SArr(dst)}, "copy")
		lay := ti.LayoutOf(dt.Elem())
		for _, lf := range lay.Leaves {
			h := fc.leafHeap(st, lf.Sort)
			oldRow := fc.sc.Define("oldrow", Select(h, SArr(dst)))
			row := fc.sc.Fresh("copyrow", ArrSort(SInt, lf.Sort))
			lim := Mul(n, IntLit(w))
			if isStr {
				fc.sc.Assert(mk(SBool, fmt.Sprintf("(forall ((i!q Int)) (! (= (select %s i!q) (ite (and (<= %s i!q) (< i!q (+ %s %s))) (strbyte %s (- i!q %s)) (select %s i!q))) :pattern ((select %s i!q))))",
					row.S, SOff(dst).S, SOff(dst).S, lim.S, args[1].T.S, SOff(dst).S, oldRow.S, row.S)))
			} else {
				src := args[1].T
				srcRow := fc.sc.Define("srcrow", Select(h, SArr(src)))
				fc.sc.Assert(mk(SBool, fmt.Sprintf("(forall ((i!q Int)) (! (= (select %s i!q) (ite (and (<= %s i!q) (< i!q (+ %s %s))) (select %s (+ %s (- i!q %s))) (select %s i!q))) :pattern ((select %s i!q))))",
					row.S, SOff(dst).S, SOff(dst).S, lim.S, srcRow.S, SOff(src).S, SOff(dst).S, oldRow.S, row.S)))
			}
			fc.setHeap(st, leafHeapName(lf.Sort), Store(h, SArr(dst), row))
		}
		return []Val{scalar(n)}
	case "delete":
		mt := c.Args[0].Type().Underlying().(*types.Map)
		m := args[0].T
		fr.checkWrite(st, site, locItem{kind: "map", obj: m, mapT: mt}, "delete")
		if vi, ok := site.(ssa.Instruction); ok {
			fr.guardCheck(st, vi, c.Args[0], true)
		}
		fc.mapDelete(st, m, mt, args[1])
		return nil
	case "clear":
		switch u := c.Args[0].Type().Underlying().(type) {
		case *types.Map:
			m := args[0].T
			fr.checkWrite(st, site, locItem{kind: "map", obj: m, mapT: u}, "clear")
			p, pn := fc.mapP(st, u)
			ks := fc.mapKeySort(u)
			fc.setHeap(st, pn, Store(p, m, ConstArr(ArrSort(ks, SBool), TFalse)))
			cc, cn := fc.mapCT(st, u)
			fc.setHeap(st, cn, Store(cc, m, IntLit(0)))
			return nil
		}
		unsup("clear of %s", c.Args[0].Type())
	case "panic":
		fc.oblige(st, "panic", fr.path, TFalse, fr.pos(site), "explicit panic is unreachable")
		st.reach = TFalse
		return nil
	case "recover":
		for f := fr; f != nil; f = f.parent {
			if f.recovered != nil {
				return []Val{scalar(f.recovered)}
			}
		}
		return []Val{scalar(NilIface)}
	case "close":
		// closing a channel: ghost counter chclosed(ch) (declared on demand); closing a nil channel or one that is
		// already closed panics
		ch := args[0].T
		fc.oblige(st, "nil", fr.path, Ne(ch, IntLit(0)), fr.pos(site), "close of nil channel")
		if _, declared := fc.eng.db.Ghosts["chclosed"]; declared {
			fr.checkWrite(st, site, locItem{kind: "ghost", ghost: "gmap:chclosed"}, "close(chan)")
			arr := fc.ghostMapIn(st, "chclosed", []*Term{ch})
			fc.oblige(st, "chan-close", fr.path, Eq(Select(arr, ch), IntLit(0)), fr.pos(site), "close of a channel that is already closed (panics)")
			st.ghosts["gmap:chclosed"] = fc.sc.Define("gmap", Store(arr, ch, Add(Select(arr, ch), IntLit(1))))
		} else {
			fc.note("close(chan): double close not checked (no `ghost chclosed(mathint)` declared)")
		}
		return nil
	case "print", "println":
		return nil
	}
	unsup("builtin %s", b.Name())
	return nil
}

// ghostInc implements the clause `ghostinc name(keyexpr)`.
func (fr *Frame) ghostInc(ev *EvalCtx, c *Clause, st *State) {
	fc := fr.fc
	text := c.Text
	amount := IntLit(1)
	if k := strings.Index(text, " when "); k > 0 {
		// conditional ghost effect: `ghostinc name(keys) when <cond>` (cond may mention the results)
		ce, err := ParseExpr(strings.TrimSpace(text[k+len(" when "):]))
		if err != nil {
			unsup("%s:%d: %v", c.File, c.Line, err)
		}
		amount = Ite(ev.evalBool(ce), IntLit(1), IntLit(0))
		text = strings.TrimSpace(text[:k])
	}
	e, err := ParseExpr(text)
	if err != nil {
		unsup("%s:%d: %v", c.File, c.Line, err)
	}
	call, ok := e.(ECall)
	if !ok || len(call.Args) < 1 || len(call.Args) > 2 {
		unsup("%s:%d: ghostinc name(key[, key2])", c.File, c.Line)
	}
	var keys []*Term
	func() {
		defer func() {
			if r := recover(); r != nil {
				if ee, ok := r.(evalErr); ok {
					panic(unsupported{fmt.Sprintf("%s:%d: %s (in %q)", c.File, c.Line, ee.msg, c.Text)})
				}
				panic(r)
			}
		}()
		for _, a := range call.Args {
			k := ev.eval(a)
			if k.V.T == nil {
				panic(evalErr{"ghostinc key must be scalar"})
			}
			keys = append(keys, k.V.T)
		}
	}()
	name := "gmap:" + call.Fn
	arr := fc.ghostMapIn(st, call.Fn, keys)
	if len(keys) == 1 {
		st.ghosts[name] = fc.sc.Define("gmap", Store(arr, keys[0], Add(Select(arr, keys[0]), amount)))
	} else {
		row := Select(arr, keys[0])
		st.ghosts[name] = fc.sc.Define("gmap", Store(arr, keys[0], Store(row, keys[1], Add(Select(row, keys[1]), amount))))
	}
}


// preservedFact: what "the call preserves e" means. For a value: it is unchanged. For a predicate: if it held
// before the call it holds after it (one direction only - an equivalence between two quantified formulas is much
// harder for the solvers and is never what an invariant needs).
func preservedFact(a, b Val) *Term {
	if a.T != nil && a.T.Sort == SBool && b.T != nil && strings.Contains(a.T.S, "forall") {
		return Implies(a.T, b.T)
	}
	return eqVal(a, b)
}
