package main

import (
	"fmt"
	"os"
	"math/big"
	"sort"
	"strings"
)

// ---------------------------------------------------------------------------------------------
// SMT terms. A term is an s-expression string plus its sort; the printer is the string itself.
// Every SSA value / heap version gets its own declared constant with a defining equation, so the
// size of a VC stays linear in the size of the function.
// ---------------------------------------------------------------------------------------------

type Sort string

const (
	SInt   Sort = "Int"
	SBool  Sort = "Bool"
	SStr   Sort = "Str"
	SPtr   Sort = "Ptr"
	SSlice Sort = "Slice"
	SIface Sort = "Iface"
	SFlt   Sort = "Flt"
)

func ArrSort(k, v Sort) Sort { return Sort("(Array " + string(k) + " " + string(v) + ")") }

// HeapSort is the two-level heap array for leaf sort s: obj -> slot -> value.
func HeapSort(s Sort) Sort { return ArrSort(SInt, ArrSort(SInt, s)) }

type Term struct {
	S    string
	Sort Sort
}

func (t *Term) String() string { return t.S }

func mk(sort Sort, s string) *Term { return &Term{S: s, Sort: sort} }

func app(sort Sort, op string, args ...*Term) *Term {
	var sb strings.Builder
	sb.WriteByte('(')
	sb.WriteString(op)
	for _, a := range args {
		sb.WriteByte(' ')
		sb.WriteString(a.S)
	}
	sb.WriteByte(')')
	return mk(sort, sb.String())
}

// defTable maps a named constant to its defining term (current function only; VC generation is
// single-threaded). It lets selectors fold through names: itag(x) where x := (mkiface 5 p) is 5.
var defTable = map[string]*Term{}

func peek(t *Term) *Term {
	for i := 0; i < 8; i++ {
		d, ok := defTable[t.S]
		if !ok {
			return t
		}
		t = d
	}
	return t
}

// ctorArgs splits "(ctor a b c)" into its argument s-expressions if t is an application of ctor.
func ctorArgs(t *Term, ctor string) []string {
	t = peek(t)
	pre := "(" + ctor + " "
	if !strings.HasPrefix(t.S, pre) {
		return nil
	}
	body := t.S[len(pre) : len(t.S)-1]
	var out []string
	depth, start := 0, 0
	for i := 0; i < len(body); i++ {
		switch body[i] {
		case '(':
			depth++
		case ')':
			depth--
		case ' ':
			if depth == 0 {
				out = append(out, body[start:i])
				start = i + 1
			}
		}
	}
	out = append(out, body[start:])
	return out
}

func isNumeralOrNeg(s string) bool {
	if isNumeral(s) {
		return true
	}
	return strings.HasPrefix(s, "(- ") && isNumeral(s[3:len(s)-1])
}

var (
	TTrue  = mk(SBool, "true")
	TFalse = mk(SBool, "false")
)

func IntLit(v int64) *Term {
	if v < 0 {
		return mk(SInt, fmt.Sprintf("(- %d)", -big.NewInt(v).Int64()))
	}
	return mk(SInt, fmt.Sprintf("%d", v))
}

func BigLit(v *big.Int) *Term {
	if v.Sign() < 0 {
		return mk(SInt, "(- "+new(big.Int).Neg(v).String()+")")
	}
	return mk(SInt, v.String())
}

func BoolLit(b bool) *Term {
	if b {
		return TTrue
	}
	return TFalse
}

func Not(a *Term) *Term {
	if a.S == "true" {
		return TFalse
	}
	if a.S == "false" {
		return TTrue
	}
	if strings.HasPrefix(a.S, "(not ") {
		return mk(SBool, a.S[5:len(a.S)-1])
	}
	return app(SBool, "not", a)
}

func And(as ...*Term) *Term {
	var xs []*Term
	for _, a := range as {
		if a == nil || a == TTrue || a.S == "true" {
			continue
		}
		if a == TFalse || a.S == "false" {
			return TFalse
		}
		xs = append(xs, a)
	}
	switch len(xs) {
	case 0:
		return TTrue
	case 1:
		return xs[0]
	}
	return app(SBool, "and", xs...)
}

func Or(as ...*Term) *Term {
	var xs []*Term
	for _, a := range as {
		if a == nil || a == TFalse || a.S == "false" {
			continue
		}
		if a == TTrue || a.S == "true" {
			return TTrue
		}
		xs = append(xs, a)
	}
	switch len(xs) {
	case 0:
		return TFalse
	case 1:
		return xs[0]
	}
	return app(SBool, "or", xs...)
}

func Implies(a, b *Term) *Term {
	if a == TTrue || a.S == "true" {
		return b
	}
	if b.S == "true" {
		return TTrue
	}
	if a.S == "false" {
		return TTrue
	}
	return app(SBool, "=>", a, b)
}

func Eq(a, b *Term) *Term {
	if a.Sort != b.Sort {
		panic(fmt.Sprintf("Eq: sort mismatch %s:%s vs %s:%s", a.S, a.Sort, b.S, b.Sort))
	}
	if a.S == b.S {
		return TTrue
	}
	if a.Sort == SInt {
		pa, pb := peek(a), peek(b)
		if isNumeralOrNeg(pa.S) && isNumeralOrNeg(pb.S) && pa.S != pb.S {
			return TFalse
		}
	}
	if a.Sort == SBool {
		if b.S == "true" {
			return a
		}
		if a.S == "true" {
			return b
		}
		if b.S == "false" {
			return Not(a)
		}
		if a.S == "false" {
			return Not(b)
		}
	}
	return app(SBool, "=", a, b)
}

func Ne(a, b *Term) *Term { return Not(Eq(a, b)) }

func Ite(c, a, b *Term) *Term {
	if a.Sort != b.Sort {
		panic(fmt.Sprintf("Ite: sort mismatch %s:%s vs %s:%s", a.S, a.Sort, b.S, b.Sort))
	}
	if c.S == "true" {
		return a
	}
	if c.S == "false" {
		return b
	}
	if a.S == b.S {
		return a
	}
	return app(a.Sort, "ite", c, a, b)
}

// numVal parses a numeral term ("5" or "(- 5)"), looking through definitions.
func numVal(t *Term) (*big.Int, bool) {
	s := peek(t).S
	if isNumeral(s) {
		v, ok := new(big.Int).SetString(s, 10)
		return v, ok
	}
	if strings.HasPrefix(s, "(- ") && isNumeral(s[3:len(s)-1]) {
		v, ok := new(big.Int).SetString(s[3:len(s)-1], 10)
		if ok {
			v.Neg(v)
		}
		return v, ok
	}
	return nil, false
}

// linForm splits t into base + constant ("(+ base c)" shapes produced by Add); base "" for numerals.
func linForm(t *Term) (string, *big.Int) {
	if v, ok := numVal(t); ok {
		return "", v
	}
	s := t.S
	if strings.HasPrefix(s, "(+ ") {
		if a, b, ok := split2(s[3 : len(s)-1]); ok {
			if v, ok := numVal(mk(SInt, b)); ok {
				base, c := linForm(mk(SInt, a))
				return base, new(big.Int).Add(c, v)
			}
			if v, ok := numVal(mk(SInt, a)); ok {
				base, c := linForm(mk(SInt, b))
				return base, new(big.Int).Add(c, v)
			}
		}
	}
	return s, big.NewInt(0)
}

func Add(a, b *Term) *Term {
	if b.S == "0" {
		return a
	}
	if a.S == "0" {
		return b
	}
	if x, ok := numVal(a); ok {
		if y, ok := numVal(b); ok {
			return BigLit(new(big.Int).Add(x, y))
		}
	}
	// (base + c1) + c2 -> base + (c1+c2)
	if y, ok := numVal(b); ok {
		if base, c := linForm(a); base != "" && c.Sign() != 0 {
			sum := new(big.Int).Add(c, y)
			if sum.Sign() == 0 {
				return mk(SInt, base)
			}
			return app(SInt, "+", mk(SInt, base), BigLit(sum))
		}
	}
	return app(SInt, "+", a, b)
}
func Sub(a, b *Term) *Term {
	if b.S == "0" {
		return a
	}
	if x, ok := numVal(a); ok {
		if y, ok := numVal(b); ok {
			return BigLit(new(big.Int).Sub(x, y))
		}
	}
	if a.S == b.S {
		return IntLit(0)
	}
	return app(SInt, "-", a, b)
}
func Mul(a, b *Term) *Term {
	if a.S == "1" {
		return b
	}
	if b.S == "1" {
		return a
	}
	if x, ok := numVal(a); ok {
		if y, ok := numVal(b); ok {
			return BigLit(new(big.Int).Mul(x, y))
		}
	}
	return app(SInt, "*", a, b)
}
func Neg(a *Term) *Term {
	if x, ok := numVal(a); ok {
		return BigLit(new(big.Int).Neg(x))
	}
	return app(SInt, "-", a)
}
func cmpFold(a, b *Term, f func(int) bool) (*Term, bool) {
	if x, ok := numVal(a); ok {
		if y, ok := numVal(b); ok {
			return BoolLit(f(x.Cmp(y))), true
		}
	}
	return nil, false
}
func Lt(a, b *Term) *Term {
	if r, ok := cmpFold(a, b, func(c int) bool { return c < 0 }); ok {
		return r
	}
	return app(SBool, "<", a, b)
}
func Le(a, b *Term) *Term {
	if r, ok := cmpFold(a, b, func(c int) bool { return c <= 0 }); ok {
		return r
	}
	return app(SBool, "<=", a, b)
}
func Gt(a, b *Term) *Term {
	if r, ok := cmpFold(a, b, func(c int) bool { return c > 0 }); ok {
		return r
	}
	return app(SBool, ">", a, b)
}
func Ge(a, b *Term) *Term {
	if r, ok := cmpFold(a, b, func(c int) bool { return c >= 0 }); ok {
		return r
	}
	return app(SBool, ">=", a, b)
}

func Select(arr, idx *Term) *Term {
	s := string(arr.Sort)
	// (Array K V) -> V
	_, v := splitArr(Sort(s))
	return app(v, "select", arr, idx)
}

func Store(arr, idx, val *Term) *Term {
	_, v := splitArr(arr.Sort)
	if v != val.Sort {
		panic(fmt.Sprintf("Store: sort mismatch: array %s value %s:%s", arr.Sort, val.S, val.Sort))
	}
	return app(arr.Sort, "store", arr, idx, val)
}

// splitArr parses "(Array K V)" into K and V.
func splitArr(s Sort) (Sort, Sort) {
	str := string(s)
	if !strings.HasPrefix(str, "(Array ") {
		panic("not an array sort: " + str)
	}
	body := str[len("(Array ") : len(str)-1]
	// K is either an atom or a parenthesised expr
	depth := 0
	for i := 0; i < len(body); i++ {
		switch body[i] {
		case '(':
			depth++
		case ')':
			depth--
		case ' ':
			if depth == 0 {
				return Sort(body[:i]), Sort(body[i+1:])
			}
		}
	}
	panic("bad array sort: " + str)
}

func ConstArr(sort Sort, v *Term) *Term {
	return mk(sort, fmt.Sprintf("((as const %s) %s)", sort, v.S))
}

// Heap access helpers: H[obj][slot]
// HSel reads H[obj][slot], looking through the chain of named heap versions while the written
// location is syntactically the same (take the value) or syntactically different (skip the write).
var hselMemo = map[string]*Term{}

func HSel(h, obj, slot *Term) *Term {
	key := h.S + "|" + obj.S + "|" + slot.S
	if r, ok := hselMemo[key]; ok {
		return r
	}
	r := hsel(h, obj, slot, 0)
	hselMemo[key] = r
	return r
}

func hsel(h, obj, slot *Term, depth int) *Term {
	cur := h
	for i := 0; i < 64; i++ {
		d := peek(cur)
		if strings.HasPrefix(d.S, "(ite ") && depth < 6 {
			// a merged heap: read both sides; equal results need no case split
			if a := ctorArgs(d, "ite"); len(a) == 3 {
				ra := HSel(mk(h.Sort, a[1]), obj, slot)
				rb := HSel(mk(h.Sort, a[2]), obj, slot)
				if ra.S == rb.S {
					return ra
				}
				return Ite(mk(SBool, a[0]), ra, rb)
			}
		}
		if !strings.HasPrefix(d.S, "(store ") {
			break
		}
		a := ctorArgs(d, "store")
		if len(a) != 3 {
			break
		}
		base, wobj, wrow := a[0], a[1], a[2]
		sameObj, diffObj := wobj == obj.S, distinctObjs(wobj, obj.S)
		if !sameObj && !diffObj {
			if os.Getenv("GOVC_DEBUG_HSEL") != "" {
				fmt.Fprintf(os.Stderr, "HSel stop: read %s[%s] blocked by write to %s\n", obj.S, slot.S, wobj)
			}
			break
		}
		if diffObj {
			cur = mk(h.Sort, base)
			continue
		}
		// same object: row must be (store (select base obj) slot v), possibly nested
		row := wrow
		done := false
		for j := 0; j < 64; j++ {
			ra := ctorArgs(mk(SInt, row), "store")
			if len(ra) != 3 {
				break
			}
			ws := ra[1]
			if ws == slot.S {
				_, vs := splitArr(h.Sort)
				_, leaf := splitArr(vs)
				return mk(leaf, ra[2])
			}
			if !distinctSlots(ws, slot.S) {
				done = true
				break
			}
			row = ra[0]
		}
		if done {
			break
		}
		if row == "(select "+base+" "+wobj+")" {
			cur = mk(h.Sort, base)
			continue
		}
		if strings.HasPrefix(row, "(select ") {
			// the row is a copy of another object's row in some heap version: continue there
			if ra := ctorArgs(mk(SInt, row), "select"); len(ra) == 2 {
				return hsel(mk(h.Sort, ra[0]), mk(SInt, ra[1]), slot, depth+1)
			}
		}
		if strings.HasPrefix(row, "((as const ") {
			// freshly allocated zero row
			k := strings.LastIndex(row, ") ")
			_, vs := splitArr(h.Sort)
			_, leaf := splitArr(vs)
			return mk(leaf, row[k+2:len(row)-1])
		}
		break
	}
	return Select(Select(cur, obj), slot)
}

func distinctSlots(a, b string) bool {
	ba, ca := linForm(mk(SInt, a))
	bb, cb := linForm(mk(SInt, b))
	return ba == bb && ca.Cmp(cb) != 0
}

// distinctObjs: two different freshly allocated objects (named obj!k), or two different numerals.
func distinctObjs(a, b string) bool {
	if a == b {
		return false
	}
	if strings.HasPrefix(a, "obj!") && strings.HasPrefix(b, "obj!") {
		return true
	}
	if isNumeral(a) && isNumeral(b) {
		return true
	}
	if (isNumeral(a) && strings.HasPrefix(b, "obj!")) || (isNumeral(b) && strings.HasPrefix(a, "obj!")) {
		return true
	}
	// a reference term that was created before object obj!K was allocated cannot denote it: every
	// reference value is created together with the fact obj < next (heap well-formedness)
	if strings.HasPrefix(a, "obj!") {
		if k, ok := bangNum(a); ok && maxBang(b) < k && maxBang(b) >= 0 {
			return true
		}
	}
	if strings.HasPrefix(b, "obj!") {
		if k, ok := bangNum(b); ok && maxBang(a) < k && maxBang(a) >= 0 {
			return true
		}
	}
	return false
}

func bangNum(s string) (int, bool) {
	k := strings.LastIndex(s, "!")
	if k < 0 {
		return 0, false
	}
	n := 0
	for _, c := range s[k+1:] {
		if c < '0' || c > '9' {
			return 0, false
		}
		n = n*10 + int(c-'0')
	}
	return n, true
}

// maxBang returns the largest creation number !N occurring in s (-1 if none).
func maxBang(s string) int {
	best := -1
	for i := 0; i < len(s); i++ {
		if s[i] != '!' {
			continue
		}
		n, j := 0, i+1
		for j < len(s) && s[j] >= '0' && s[j] <= '9' {
			n = n*10 + int(s[j]-'0')
			j++
		}
		if j > i+1 && n > best {
			best = n
		}
	}
	return best
}
func HSto(h, obj, slot, v *Term) *Term {
	return Store(h, obj, Store(Select(h, obj), slot, v))
}

// datatype helpers
func MkPtr(obj, slot *Term) *Term { return app(SPtr, "mkptr", obj, slot) }
func PObj(p *Term) *Term {
	if a := ctorArgs(p, "mkptr"); len(a) == 2 {
		return mk(SInt, a[0])
	}
	return app(SInt, "pobj", p)
}
func PSlot(p *Term) *Term {
	if a := ctorArgs(p, "mkptr"); len(a) == 2 {
		return mk(SInt, a[1])
	}
	return app(SInt, "pslot", p)
}

// split2 splits "a b" where a and b are s-expressions.
func split2(s string) (string, string, bool) {
	depth := 0
	for i := 0; i < len(s); i++ {
		switch s[i] {
		case '(':
			depth++
		case ')':
			depth--
		case ' ':
			if depth == 0 {
				rest := s[i+1:]
				// rest must be a single sexpr
				d := 0
				for j := 0; j < len(rest); j++ {
					switch rest[j] {
					case '(':
						d++
					case ')':
						d--
					case ' ':
						if d == 0 {
							return "", "", false
						}
					}
				}
				return s[:i], rest, true
			}
		}
	}
	return "", "", false
}

func MkSlice(arr, off, ln, cp *Term) *Term { return app(SSlice, "mkslice", arr, off, ln, cp) }
func sliceSel(s *Term, i int, name string) *Term {
	if a := ctorArgs(s, "mkslice"); len(a) == 4 {
		return mk(SInt, a[i])
	}
	return app(SInt, name, s)
}
func SArr(s *Term) *Term { return sliceSel(s, 0, "sarr") }
func SOff(s *Term) *Term { return sliceSel(s, 1, "soff") }
func SLen(s *Term) *Term { return sliceSel(s, 2, "slen") }
func SCap(s *Term) *Term { return sliceSel(s, 3, "scap") }

func MkIface(tag, pay *Term) *Term { return app(SIface, "mkiface", tag, pay) }
func ITag(i *Term) *Term {
	if a := ctorArgs(i, "mkiface"); len(a) == 2 {
		return mk(SInt, a[0])
	}
	return app(SInt, "itag", i)
}
func IPay(i *Term) *Term {
	if a := ctorArgs(i, "mkiface"); len(a) == 2 {
		return mk(SInt, a[1])
	}
	return app(SInt, "ipay", i)
}

var NilPtr = mk(SPtr, "(mkptr 0 0)")
var NilSlice = mk(SSlice, "(mkslice 0 0 0 0)")
var NilIface = mk(SIface, "(mkiface 0 0)")

func StrLen(s *Term) *Term { return app(SInt, "strlen", s) }

// ---------------------------------------------------------------------------------------------
// Script: declarations + facts, shared by all obligations of one function.
// ---------------------------------------------------------------------------------------------

type Script struct {
	decls   []string // declarations in order
	facts   []string // asserted facts in order (already formatted as terms)
	nfresh  int
	strLits map[string]string // literal -> const name
	strOrd  []string
	funcs   map[string]bool // declared uninterpreted functions
	usesStrLt bool
	preFacts  []string
	oblFact   map[int]bool // indices of facts that are assumed proof obligations (assert-then-assume)
}

func NewScript() *Script {
	return &Script{strLits: map[string]string{}, funcs: map[string]bool{}, oblFact: map[int]bool{}}
}

func (s *Script) Fresh(prefix string, sort Sort) *Term {
	s.nfresh++
	name := fmt.Sprintf("%s!%d", sanitize(prefix), s.nfresh)
	s.decls = append(s.decls, fmt.Sprintf("(declare-const %s %s)", name, sort))
	return mk(sort, name)
}

// Define introduces a named constant equal to t (keeps later terms small).
func (s *Script) Define(prefix string, t *Term) *Term {
	if isAtom(t.S) {
		return t
	}
	c := s.Fresh(prefix, t.Sort)
	s.facts = append(s.facts, app(SBool, "=", c, t).S)
	defTable[c.S] = t
	return c
}

func isAtom(x string) bool {
	return !strings.ContainsAny(x, " (") || (strings.HasPrefix(x, "(- ") && !strings.ContainsAny(x[3:], " ("))
}

func (s *Script) Assert(t *Term) {
	if t.Sort != SBool {
		panic("assert of non-bool " + t.S)
	}
	if t.S == "true" {
		return
	}
	s.facts = append(s.facts, t.S)
}

func (s *Script) DeclFun(name string, args []Sort, ret Sort) {
	if s.funcs[name] {
		return
	}
	s.funcs[name] = true
	var as []string
	for _, a := range args {
		as = append(as, string(a))
	}
	s.decls = append(s.decls, fmt.Sprintf("(declare-fun %s (%s) %s)", name, strings.Join(as, " "), ret))
}

func (s *Script) StrLit(v string) *Term {
	if n, ok := s.strLits[v]; ok {
		return mk(SStr, n)
	}
	n := fmt.Sprintf("strlit!%d", len(s.strLits))
	s.strLits[v] = n
	s.strOrd = append(s.strOrd, v)
	return mk(SStr, n)
}

func sanitize(x string) string {
	var sb strings.Builder
	for _, r := range x {
		if (r >= 'a' && r <= 'z') || (r >= 'A' && r <= 'Z') || (r >= '0' && r <= '9') || r == '_' || r == '.' || r == '$' {
			sb.WriteRune(r)
		} else {
			sb.WriteByte('_')
		}
	}
	if sb.Len() == 0 {
		return "v"
	}
	return sb.String()
}

const preludeSorts = `(declare-sort Str 0)
(declare-sort Flt 0)
(declare-datatypes ((Ptr 0)) (((mkptr (pobj Int) (pslot Int)))))
(declare-datatypes ((Slice 0)) (((mkslice (sarr Int) (soff Int) (slen Int) (scap Int)))))
(declare-datatypes ((Iface 0)) (((mkiface (itag Int) (ipay Int)))))
(declare-fun strlen (Str) Int)
(declare-fun strbyte (Str Int) Int)
(declare-fun mkstr ((Array Int Int) Int Int) Str)
(declare-fun strcat (Str Str) Str)
(declare-fun strlt (Str Str) Bool)
(define-fun clamp_uint8 ((x Int)) Int (ite (and (<= 0 x) (<= x 255)) x 0))
(define-fun clamp_int8 ((x Int)) Int (ite (and (<= (- 128) x) (<= x 127)) x 0))
(define-fun clamp_uint16 ((x Int)) Int (ite (and (<= 0 x) (<= x 65535)) x 0))
(define-fun clamp_int16 ((x Int)) Int (ite (and (<= (- 32768) x) (<= x 32767)) x 0))
(define-fun clamp_uint32 ((x Int)) Int (ite (and (<= 0 x) (<= x 4294967295)) x 0))
(define-fun clamp_int32 ((x Int)) Int (ite (and (<= (- 2147483648) x) (<= x 2147483647)) x 0))
(define-fun clamp_uint64 ((x Int)) Int (ite (and (<= 0 x) (<= x 18446744073709551615)) x 0))
(define-fun clamp_int64 ((x Int)) Int (ite (and (<= (- 9223372036854775808) x) (<= x 9223372036854775807)) x 0))
(declare-fun int2flt (Int) Flt)
(declare-fun fltbits (Flt) Int)
(declare-fun bits2flt (Int) Flt)
`

const preludeMd = `(declare-fun md (Int Int) Int)
(declare-fun dv (Int Int) Int)
(assert (forall ((a Int) (b Int)) (! (=> (and (> b 0) (<= 0 a) (< a b)) (= (md a b) a)) :pattern ((md a b)))))
(assert (forall ((a Int) (b Int)) (! (=> (and (> b 0) (<= b a) (< a (* 2 b))) (= (md a b) (- a b))) :pattern ((md a b)))))
(assert (forall ((a Int) (b Int)) (! (=> (and (> b 0) (>= a 0)) (and (<= 0 (md a b)) (< (md a b) b))) :pattern ((md a b)))))
(assert (forall ((a Int) (b Int)) (! (=> (and (> b 0) (>= a 0)) (and (<= 0 (dv a b)) (<= (dv a b) a))) :pattern ((dv a b)))))
`

// counterexample mode: md/dv are the real (non-linear) operations, no quantified axioms
const preludeMdCex = `(define-fun md ((a Int) (b Int)) Int (ite (>= a 0) (mod a b) (- (mod (- a) b))))
(define-fun dv ((a Int) (b Int)) Int (ite (>= a 0) (div a b) (- (div (- a) b))))
`

const preludeStr = `(assert (forall ((s Str)) (! (>= (strlen s) 0) :pattern ((strlen s)))))
(assert (forall ((m (Array Int Int)) (o Int) (n Int)) (! (=> (>= n 0) (= (strlen (mkstr m o n)) n)) :pattern ((mkstr m o n)))))
(assert (forall ((m (Array Int Int)) (o Int) (n Int) (i Int)) (! (=> (and (<= 0 i) (< i n)) (= (strbyte (mkstr m o n) i) (clamp_uint8 (elt_Int m o i)))) :pattern ((strbyte (mkstr m o n) i)))))
(assert (forall ((a Str) (b Str)) (! (= (strlen (strcat a b)) (+ (strlen a) (strlen b))) :pattern ((strcat a b)))))
(assert (forall ((s Str) (i Int)) (! (and (<= 0 (strbyte s i)) (<= (strbyte s i) 255)) :pattern ((strbyte s i)))))
(declare-fun sdiff2 ((Array Int Int) Int Str) Int)
(assert (forall ((m (Array Int Int)) (o Int) (n Int) (s Str)) (! (=> (and (= n (strlen s)) (=> (and (<= 0 (sdiff2 m o s)) (< (sdiff2 m o s) n)) (= (clamp_uint8 (elt_Int m o (sdiff2 m o s))) (strbyte s (sdiff2 m o s))))) (= (mkstr m o n) s)) :pattern ((mkstr m o n) (strlen s)))))
(declare-fun sdiff ((Array Int Int) Int (Array Int Int) Int Int) Int)
(assert (forall ((m1 (Array Int Int)) (o1 Int) (n1 Int) (m2 (Array Int Int)) (o2 Int) (n2 Int)) (! (=> (and (= n1 n2) (>= n1 0) (=> (and (<= 0 (sdiff m1 o1 m2 o2 n1)) (< (sdiff m1 o1 m2 o2 n1) n1)) (= (clamp_uint8 (elt_Int m1 o1 (sdiff m1 o1 m2 o2 n1))) (clamp_uint8 (elt_Int m2 o2 (sdiff m1 o1 m2 o2 n1)))))) (= (mkstr m1 o1 n1) (mkstr m2 o2 n2))) :pattern ((mkstr m1 o1 n1) (mkstr m2 o2 n2)))))
`

// Render produces a full SMT-LIB script checking that goal follows from the facts, i.e. asserts
// the facts and the negated goal; expected answer: unsat.
func (s *Script) Render(nfacts int, negGoal string, wantModel bool, forCVC5 bool) string {
	return s.RenderMode(nfacts, negGoal, wantModel, forCVC5, false)
}

// RenderMode: cex=true drops the quantified prelude axioms and interprets md/dv exactly, which lets the
// solvers answer sat with a model on obligations that are otherwise quantifier-free.
func (s *Script) RenderMode(nfacts int, negGoal string, wantModel bool, forCVC5 bool, cex bool) string {
	return s.render(nfacts, negGoal, wantModel, forCVC5, cex, false)
}

// RenderCover renders a reachability query; facts that are assumed obligations are left out, so that a
// failing obligation cannot make the cover fail as well (and a contradiction among the genuine
// assumptions is still found).
func (s *Script) RenderCover(nfacts int, goal string) string {
	return s.render(nfacts, goal, false, false, false, true)
}

func (s *Script) render(nfacts int, negGoal string, wantModel bool, forCVC5 bool, cex bool, skipObl bool) string {
	var sb strings.Builder
	if wantModel {
		sb.WriteString("(set-option :produce-models true)\n")
	}
	if forCVC5 {
		sb.WriteString("(set-logic ALL)\n")
	}
	if nfacts > len(s.facts) {
		nfacts = len(s.facts)
	}
	usesMd, usesStr := false, len(s.strOrd) > 0
	scan := func(t string) {
		if !usesMd && (strings.Contains(t, "(md ") || strings.Contains(t, "(dv ")) {
			usesMd = true
		}
		if !usesStr && (strings.Contains(t, "(strlen ") || strings.Contains(t, "(mkstr ") || strings.Contains(t, "(strcat ") || strings.Contains(t, "(strbyte ")) {
			usesStr = true
		}
	}
	scan(negGoal)
	for _, f := range s.facts[:nfacts] {
		scan(f)
	}
	sb.WriteString(preludeSorts)
	// elt_S(row, off, i): element i of a slice view (off) of array row; defined by its axiom, used in
	// quantified spec formulas so that triggers do not contain arithmetic
	for _, srt := range []Sort{SInt, SBool, SStr, SPtr, SSlice, SIface, SFlt} {
		name := "elt_" + string(srt)
		used := srt == SInt && usesStr
		if !used {
			if strings.Contains(negGoal, "("+name+" ") {
				used = true
			} else {
				for _, f := range s.facts[:nfacts] {
					if strings.Contains(f, "("+name+" ") {
						used = true
						break
					}
				}
			}
		}
		if used {
			fmt.Fprintf(&sb, "(declare-fun %s ((Array Int %s) Int Int) %s)\n", name, srt, srt)
			fmt.Fprintf(&sb, "(assert (forall ((m (Array Int %s)) (o Int) (i Int)) (! (= (%s m o i) (select m (+ o i))) :pattern ((%s m o i)))))\n", srt, name, name)
		}
	}
	if usesMd {
		if cex {
			sb.WriteString(preludeMdCex)
		} else {
			sb.WriteString(preludeMd)
		}
	}
	if usesStr && !cex {
		sb.WriteString(preludeStr)
	}
	// string literals: distinct constants with known lengths
	lits := append([]string(nil), s.strOrd...)
	for _, v := range lits {
		n := s.strLits[v]
		fmt.Fprintf(&sb, "(declare-const %s Str)\n(assert (= (strlen %s) %d))\n", n, n, len(v))
	}
	if len(lits) > 1 {
		var names []string
		for _, v := range lits {
			names = append(names, s.strLits[v])
		}
		sort.Strings(names)
		fmt.Fprintf(&sb, "(assert (distinct %s))\n", strings.Join(names, " "))
	}
	if e, ok := s.strLits[""]; ok && !cex {
		fmt.Fprintf(&sb, "(assert (forall ((s Str)) (! (=> (= (strlen s) 0) (= s %s)) :pattern ((strlen s)))))\n", e)
	}
	for _, d := range s.decls {
		sb.WriteString(d)
		sb.WriteByte('\n')
	}
	for _, f := range s.preFacts {
		sb.WriteString("(assert " + f + ")\n")
	}
	if s.usesStrLt && !cex {
		sb.WriteString("(assert (forall ((a Str)) (! (not (strlt a a)) :pattern ((strlt a a)))))\n")
		sb.WriteString("(assert (forall ((a Str) (b Str)) (! (or (strlt a b) (strlt b a) (= a b)) :pattern ((strlt a b)))))\n")
		sb.WriteString("(assert (forall ((a Str) (b Str)) (! (not (and (strlt a b) (strlt b a))) :pattern ((strlt a b)))))\n")
		sb.WriteString("(assert (forall ((a Str) (b Str) (c Str)) (! (=> (and (strlt a b) (strlt b c)) (strlt a c)) :pattern ((strlt a b) (strlt b c)))))\n")
	}
	if nfacts > len(s.facts) {
		nfacts = len(s.facts)
	}
	for i, f := range s.facts[:nfacts] {
		if skipObl && s.oblFact[i] {
			continue
		}
		sb.WriteString("(assert ")
		sb.WriteString(f)
		sb.WriteString(")\n")
	}
	sb.WriteString("(assert ")
	sb.WriteString(negGoal)
	sb.WriteString(")\n(check-sat)\n")
	if wantModel {
		sb.WriteString("(get-model)\n")
	}
	return sb.String()
}

// fileSafe: sanitize for file names (no `$`, which closures carry in their names)
func fileSafe(x string) string { return strings.ReplaceAll(sanitize(x), "$", "_") }
