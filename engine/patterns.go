package main

import (
	"sort"
	"strings"
)

// Explicit E-matching patterns for quantified spec formulas. Solvers' automatic trigger inference
// regularly picks terms that never occur in the ground part of a VC; the patterns chosen here are the
// minimal array reads / uninterpreted applications that mention the bound variables.

type sx struct {
	atom string
	kids []*sx
	src  string
}

func parseSx(s string) *sx {
	pos := 0
	var rec func() *sx
	rec = func() *sx {
		for pos < len(s) && s[pos] == ' ' {
			pos++
		}
		start := pos
		if s[pos] == '(' {
			pos++
			n := &sx{}
			for {
				for pos < len(s) && s[pos] == ' ' {
					pos++
				}
				if s[pos] == ')' {
					pos++
					break
				}
				n.kids = append(n.kids, rec())
			}
			n.src = s[start:pos]
			return n
		}
		for pos < len(s) && s[pos] != ' ' && s[pos] != '(' && s[pos] != ')' {
			pos++
		}
		return &sx{atom: s[start:pos], src: s[start:pos]}
	}
	return rec()
}

func (n *sx) head() string {
	if len(n.kids) > 0 && n.kids[0].atom != "" {
		return n.kids[0].atom
	}
	return ""
}

func (n *sx) vars(bound map[string]bool, out map[string]bool) {
	if n.atom != "" {
		if bound[n.atom] {
			out[n.atom] = true
		}
		return
	}
	for _, k := range n.kids {
		k.vars(bound, out)
	}
}

var interpretedHeads = map[string]bool{"and": true, "or": true, "not": true, "=>": true, "=": true, "ite": true, "let": true,
	"+": true, "-": true, "*": true, "<": true, "<=": true, ">": true, ">=": true, "div": true, "mod": true, "distinct": true,
	"forall": true, "exists": true, "!": true, "store": true, "as": true}

func triggerHead(h string) bool {
	if h == "" || interpretedHeads[h] || strings.HasPrefix(h, "clamp_") {
		return false
	}
	return true
}

// hasBadInside: a trigger term may not contain boolean structure, ite, let or quantifiers.
func hasBadInside(n *sx) bool {
	if n.atom != "" {
		return false
	}
	switch n.head() {
	case "and", "or", "not", "=>", "=", "ite", "let", "forall", "exists", "<", "<=", ">", ">=", "!", "distinct":
		return true
	}
	if strings.HasPrefix(n.head(), "clamp_") {
		return true
	}
	for _, k := range n.kids {
		if hasBadInside(k) {
			return true
		}
	}
	return false
}

// collectTriggers gathers minimal candidate trigger terms mentioning bound variables.
func collectTriggers(n *sx, bound map[string]bool, out *[]*sx) bool {
	if n.atom != "" {
		return bound[n.atom]
	}
	if n.head() == "forall" || n.head() == "exists" {
		// inner quantifier: its body may still mention our variables
		return collectTriggers(n.kids[len(n.kids)-1], bound, out)
	}
	if n.head() == "let" {
		// (let ((x e)) body): look into e and body
		any := false
		for _, b := range n.kids[1].kids {
			if len(b.kids) == 2 && collectTriggers(b.kids[1], bound, out) {
				any = true
			}
		}
		if collectTriggers(n.kids[2], bound, out) {
			any = true
		}
		return any
	}
	before := len(*out)
	has := false
	for i, k := range n.kids {
		if i == 0 && k.atom != "" {
			continue
		}
		if collectTriggers(k, bound, out) {
			has = true
		}
	}
	if !has {
		return false
	}
	if triggerHead(n.head()) && !hasBadInside(n) {
		// prefer this term if no candidate inside it already covers the same variables
		mine := map[string]bool{}
		n.vars(bound, mine)
		covered := map[string]bool{}
		for _, c := range (*out)[before:] {
			c.vars(bound, covered)
		}
		if len(covered) < len(mine) || len(*out) == before {
			*out = append((*out)[:before], n)
		}
	}
	return true
}

// patternsFor returns SMT-LIB :pattern annotations for a quantifier with the given bound variables.
func patternsFor(body string, boundNames []string) string {
	bound := map[string]bool{}
	for _, b := range boundNames {
		bound[b] = true
	}
	var cands []*sx
	collectTriggers(parseSx(body), bound, &cands)
	uniq := map[string]*sx{}
	for _, c := range cands {
		uniq[c.src] = c
	}
	var keys []string
	for k := range uniq {
		keys = append(keys, k)
	}
	sort.Strings(keys)
	var single []string
	var partial []*sx
	for _, k := range keys {
		vs := map[string]bool{}
		uniq[k].vars(bound, vs)
		if len(vs) == len(bound) {
			single = append(single, k)
		} else {
			partial = append(partial, uniq[k])
		}
	}
	var sb strings.Builder
	if len(single) > 6 {
		single = single[:6]
	}
	for _, p := range single {
		sb.WriteString(" :pattern (" + p + ")")
	}
	if len(single) == 0 && len(partial) > 0 {
		// greedy multi-pattern
		covered := map[string]bool{}
		var chosen []string
		for _, p := range partial {
			vs := map[string]bool{}
			p.vars(bound, vs)
			adds := false
			for v := range vs {
				if !covered[v] {
					adds = true
				}
			}
			if adds {
				chosen = append(chosen, p.src)
				for v := range vs {
					covered[v] = true
				}
			}
		}
		if len(covered) == len(bound) {
			sb.WriteString(" :pattern (" + strings.Join(chosen, " ") + ")")
		}
	}
	return sb.String()
}
