package main

import (
	"fmt"
	"go/ast"
	"go/constant"
	"go/token"
	"go/types"
	"math/big"
	"sort"
	"strings"

	"golang.org/x/tools/go/ssa"
)

// Frame is one activation (the top-level function or an inlined callee).
type Frame struct {
	fc      *FnCtx
	fn      *ssa.Function
	env     map[ssa.Value]Val
	path    string // obligation name prefix for inlined frames
	depth   int
	entry   *State // state at entry (for old())
	parent  *Frame
	loops   []*Loop
	loopOf  map[*ssa.BasicBlock]*Loop // header -> loop
	out     map[*ssa.BasicBlock]*State
	ins     map[*ssa.BasicBlock][]inEdge
	order   []*ssa.BasicBlock
	unrolling []*Loop
	defers  []deferRec
	rets    []retRec
	spec    *Block
	nonnil  map[string]*ssa.BasicBlock // pointer terms already proved non-nil -> block
	phiOv   map[*ssa.Phi]Val
	freeBind map[*ssa.FreeVar]Val
	closures map[ssa.Value]*ssa.MakeClosure
	rangeKeySort map[ssa.Value]Sort
	recovered *Term
	ncall     int
	inheritedWC []*writeConstraint
	funcWC    *writeConstraint
	rangeStart map[*ssa.Range][2]*Term
	guardTags  map[ssa.Value]*guardTag
	siteLimit     ssa.Instruction // callspec evaluation: locals are seen as they are just before this call
	lastLocalAddr *Term           // address of the local last resolved by localByName (nil if it lives in a register)
	panics     []*State // states in which a callee / callback panicked (to be handled by this frame's defers)
}

type deferRec struct {
	cond *Term
	call *ssa.CallCommon
	site ssa.Instruction
	args []Val
	fnv  Val
}

type retRec struct {
	st  *State
	res []Val
}

type Loop struct {
	header  *ssa.BasicBlock
	blocks  map[*ssa.BasicBlock]bool
	backs   []*ssa.BasicBlock // sources of back edges
	ordinal int
	minPos  token.Pos
	spec    *Block
	// per-execution
	decr0 []*Term
	incr0 []*Term
	pinHeld, pinRHeld *Term
	wc    *writeConstraint
	entryPhi map[*ssa.Phi]Val
	entryPhiTmp map[*ssa.Phi]Val
	preState  *State // state when the loop was entered (for entry(e) in invariants)
	unrolling bool
	backRecs  []inEdge
	liveOut   []ssa.Value
}

func (fr *Frame) pos(i ssa.Instruction) token.Position {
	p := i.Pos()
	if p == token.NoPos {
		// search nearby
		if b := i.Block(); b != nil {
			for _, j := range b.Instrs {
				if j.Pos() != token.NoPos {
					p = j.Pos()
					break
				}
			}
		}
	}
	return fr.fc.eng.fset.Position(p)
}

// ---------------------------------------------------------------------------------------------
// loops
// ---------------------------------------------------------------------------------------------

func findLoops(fn *ssa.Function) []*Loop {
	byHeader := map[*ssa.BasicBlock]*Loop{}
	var loops []*Loop
	for _, b := range fn.Blocks {
		for _, s := range b.Succs {
			if s.Dominates(b) { // back edge b -> s
				l := byHeader[s]
				if l == nil {
					l = &Loop{header: s, blocks: map[*ssa.BasicBlock]bool{s: true}}
					byHeader[s] = l
					loops = append(loops, l)
				}
				l.backs = append(l.backs, b)
				// natural loop: all blocks that reach b without passing s
				stack := []*ssa.BasicBlock{b}
				for len(stack) > 0 {
					x := stack[len(stack)-1]
					stack = stack[:len(stack)-1]
					if l.blocks[x] {
						continue
					}
					l.blocks[x] = true
					stack = append(stack, x.Preds...)
				}
			}
		}
	}
	for _, l := range loops {
		l.minPos = token.NoPos
		for b := range l.blocks {
			for _, in := range b.Instrs {
				if _, isDbg := in.(*ssa.DebugRef); isDbg {
					continue
				}
				p := in.Pos()
				if p != token.NoPos && (l.minPos == token.NoPos || p < l.minPos) {
					l.minPos = p
				}
			}
		}
	}
	sort.Slice(loops, func(i, j int) bool {
		if loops[i].minPos != loops[j].minPos {
			return loops[i].minPos < loops[j].minPos
		}
		return loops[i].header.Index < loops[j].header.Index
	})
	for i, l := range loops {
		l.ordinal = i + 1
	}
	return loops
}

func rpo(fn *ssa.Function) []*ssa.BasicBlock {
	seen := map[*ssa.BasicBlock]bool{}
	var post []*ssa.BasicBlock
	var dfs func(b *ssa.BasicBlock)
	dfs = func(b *ssa.BasicBlock) {
		seen[b] = true
		for _, s := range b.Succs {
			if !seen[s] {
				dfs(s)
			}
		}
		post = append(post, b)
	}
	dfs(fn.Blocks[0])
	if fn.Recover != nil && !seen[fn.Recover] {
		// recover block only reachable through panics; handled separately
	}
	for i, j := 0, len(post)-1; i < j; i, j = i+1, j-1 {
		post[i], post[j] = post[j], post[i]
	}
	return post
}

// ---------------------------------------------------------------------------------------------
// running a function body
// ---------------------------------------------------------------------------------------------

func funcKey(fn *ssa.Function) string {
	return fn.String()
}

func (fc *FnCtx) newFrame(fn *ssa.Function, parent *Frame, path string) *Frame {
	fr := &Frame{fc: fc, fn: fn, env: map[ssa.Value]Val{}, path: path, parent: parent,
		out: map[*ssa.BasicBlock]*State{}, ins: map[*ssa.BasicBlock][]inEdge{}, loopOf: map[*ssa.BasicBlock]*Loop{},
		nonnil: map[string]*ssa.BasicBlock{}, freeBind: map[*ssa.FreeVar]Val{}, closures: map[ssa.Value]*ssa.MakeClosure{},
		rangeKeySort: map[ssa.Value]Sort{}, rangeStart: map[*ssa.Range][2]*Term{}, guardTags: map[ssa.Value]*guardTag{}}
	if parent != nil {
		fr.depth = parent.depth + 1
	}
	fr.loops = findLoops(fn)
	key := funcKey(fn)
	// an instance of a generic function / method of a generic type is specified through its origin
	okey := key
	if fn.Origin() != nil {
		okey = stripTypeArgs(funcKey(fn.Origin()))
	}
	for _, l := range fr.loops {
		fr.loopOf[l.header] = l
		lk := fmt.Sprintf("%s#%d", key, l.ordinal)
		l.spec = fc.eng.db.Loops[lk]
		if l.spec == nil && okey != key {
			lk = fmt.Sprintf("%s#%d", okey, l.ordinal)
			l.spec = fc.eng.db.Loops[lk]
		}
		if l.spec != nil {
			fc.eng.db.UsedKeys["loop:"+lk] = true
		}
	}
	fr.spec = fc.eng.db.Funcs[key]
	if fr.spec == nil && okey != key {
		fr.spec = fc.eng.db.Funcs[okey]
		if fr.spec == nil {
			fr.spec = fc.eng.db.Funcs[funcKey(fn.Origin())]
		}
	}
	return fr
}

type inEdge struct {
	from *ssa.BasicBlock
	cond *Term
	st   *State
	phis map[*ssa.Phi]Val
	snap map[ssa.Value]Val
}

// run executes the body from state st0 with the given parameter values; returns merged exit state
// and results.
func (fr *Frame) run(st0 *State, params []Val) (*State, []Val) {
	fn := fr.fn
	fc := fr.fc
	if len(fn.Blocks) == 0 {
		unsup("function %s has no body", fn)
	}
	for i, p := range fn.Params {
		fr.env[p] = params[i]
	}
	if fr.entry == nil { // the top-level frame's entry state is fixed by VerifyFunc (before its ghost statements)
		fr.entry = st0.clone()
	}
	fr.order = rpo(fn)
	fr.execBlockList(fr.order, fn.Blocks[0], st0.clone(), nil)
	// panic edges: a panic raised below this frame runs the frame's deferred calls; if one of them recovers,
	// execution continues in the function's recover block (named results are returned as they are)
	for len(fr.panics) > 0 {
		ps := fr.panics[0]
		fr.panics = fr.panics[1:]
		if !fr.recovers() {
			if fr.parent != nil {
				fr.parent.panics = append(fr.parent.panics, ps)
			}
			continue
		}
		rv := fc.sc.Fresh("recovered", SIface)
		fc.sc.Assert(Gt(ITag(rv), IntLit(0)))
		fr.recovered = rv
		fr.runDefers(nil, ps)
		fr.recovered = nil
		if fn.Recover != nil {
			fr.execBlock(fn.Recover, ps)
		} else {
			var res []Val
			rt := fn.Signature.Results()
			for i := 0; i < rt.Len(); i++ {
				res = append(res, fc.zeroVal(rt.At(i).Type()))
			}
			fr.rets = append(fr.rets, retRec{ps, res})
		}
	}
	// merge returns
	if len(fr.rets) == 0 {
		// function never returns normally
		dead := st0.clone()
		dead.reach = TFalse
		var res []Val
		rt := fn.Signature.Results()
		for i := 0; i < rt.Len(); i++ {
			res = append(res, fc.zeroVal(rt.At(i).Type()))
		}
		return dead, res
	}
	var sts []*State
	var conds []*Term
	for _, r := range fr.rets {
		sts = append(sts, r.st)
		conds = append(conds, r.st.reach)
	}
	exit := fc.merge(sts, conds)
	nres := fn.Signature.Results().Len()
	res := make([]Val, nres)
	for i := 0; i < nres; i++ {
		var cur Val
		for k := len(fr.rets) - 1; k >= 0; k-- {
			if k == len(fr.rets)-1 {
				cur = fr.rets[k].res[i]
			} else {
				cur = iteVal(conds[k], fr.rets[k].res[i], cur)
			}
		}
		res[i] = fr.nameVal(fmt.Sprintf("ret%d", i), cur)
	}
	return exit, res
}

// execBlockList executes the given blocks (in reverse post-order). `first` receives firstState directly
// (function entry, or the header of a loop being unrolled); every other block starts from the merge of
// its recorded incoming edges. cur is the loop currently being unrolled (nil at top level).
func (fr *Frame) execBlockList(blocks []*ssa.BasicBlock, first *ssa.BasicBlock, firstState *State, cur *Loop) {
	skip := map[*ssa.BasicBlock]bool{}
	for _, b := range blocks {
		if skip[b] {
			continue
		}
		var st *State
		if b == first {
			st = firstState
		} else {
			st = fr.blockEntry(b)
			if st == nil {
				continue // unreachable
			}
		}
		if l := fr.loopOf[b]; l != nil && l != cur {
			if fr.unrollMode(l) {
				fr.unrollLoop(l, st)
				for x := range l.blocks {
					skip[x] = true
				}
				continue
			}
			fr.loopHead(l, st)
		}
		fr.execBlock(b, st)
	}
}

// blockEntry merges the recorded incoming edges of b; nil if none is reachable.
func (fr *Frame) blockEntry(b *ssa.BasicBlock) *State {
	fc := fr.fc
	var recs []inEdge
	for _, r := range fr.ins[b] {
		if r.cond.S == "false" {
			continue
		}
		recs = append(recs, r)
	}
	if len(recs) == 0 {
		return nil
	}
	var sts []*State
	var conds []*Term
	for _, r := range recs {
		sts = append(sts, r.st)
		conds = append(conds, r.cond)
	}
	st := fc.merge(sts, conds)
	fr.assignPhis(b, recs)
	// values defined inside an unrolled loop and used after it
	snapVals := map[ssa.Value]bool{}
	for _, r := range recs {
		for v := range r.snap {
			snapVals[v] = true
		}
	}
	for v := range snapVals {
		var curv *Val
		for i := len(recs) - 1; i >= 0; i-- {
			x, ok := recs[i].snap[v]
			if !ok {
				continue
			}
			if curv == nil {
				y := x
				curv = &y
			} else {
				y := iteVal(recs[i].cond, x, *curv)
				curv = &y
			}
		}
		if curv != nil {
			fr.env[v] = fr.nameVal(v.Name(), *curv)
		}
	}
	return st
}

func (fr *Frame) assignPhis(b *ssa.BasicBlock, recs []inEdge) {
	for _, in := range b.Instrs {
		phi, ok := in.(*ssa.Phi)
		if !ok {
			if _, isDbg := in.(*ssa.DebugRef); isDbg {
				continue
			}
			break
		}
		var cur *Val
		for i := len(recs) - 1; i >= 0; i-- {
			x, ok := recs[i].phis[phi]
			if !ok {
				continue
			}
			if cur == nil {
				y := x
				cur = &y
			} else {
				y := iteVal(recs[i].cond, x, *cur)
				cur = &y
			}
		}
		if cur != nil {
			fr.env[phi] = fr.nameVal(phiName(phi), *cur)
		} else {
			delete(fr.env, phi)
		}
	}
}

// phiInputs computes the values the phis of `to` receive along the edge from -> to.
func (fr *Frame) phiInputs(from, to *ssa.BasicBlock) map[*ssa.Phi]Val {
	idx := -1
	for i, p := range to.Preds {
		if p == from {
			idx = i
			break
		}
	}
	out := map[*ssa.Phi]Val{}
	if idx < 0 {
		return out
	}
	for _, in := range to.Instrs {
		phi, ok := in.(*ssa.Phi)
		if !ok {
			if _, isDbg := in.(*ssa.DebugRef); isDbg {
				continue
			}
			break
		}
		e := phi.Edges[idx]
		if _, have := fr.env[e]; !have {
			switch e.(type) {
			case *ssa.Const, *ssa.Global, *ssa.Function, *ssa.FreeVar:
			default:
				continue // value not available (defined on an unreachable path)
			}
		}
		out[phi] = fr.val(e)
	}
	return out
}

const maxUnroll = 12

// unrollMode: loops without an invariant in inlined callees (or marked `unroll`) are executed iteration by
// iteration; the proof obligation is that the loop has exited after the last unrolled iteration.
func (fr *Frame) unrollMode(l *Loop) bool {
	if l.spec != nil {
		if len(l.spec.ClausesOf("unroll")) > 0 {
			return true
		}
		return false
	}
	return fr.depth > 0 || fr.fc.unrollTop
}

func (fr *Frame) unrollLoop(l *Loop, st *State) {
	fc := fr.fc
	var iter []*ssa.BasicBlock
	for _, b := range fr.order {
		if l.blocks[b] {
			iter = append(iter, b)
		}
	}
	// live-out: values defined in the loop and used outside it
	l.liveOut = nil
	for b := range l.blocks {
		for _, in := range b.Instrs {
			v, ok := in.(ssa.Value)
			if !ok || v.Referrers() == nil {
				continue
			}
			for _, ref := range *v.Referrers() {
				if ref.Block() != nil && !l.blocks[ref.Block()] {
					l.liveOut = append(l.liveOut, v)
					break
				}
			}
		}
	}
	l.unrolling = true
	fr.unrolling = append(fr.unrolling, l)
	defer func() {
		l.unrolling = false
		fr.unrolling = fr.unrolling[:len(fr.unrolling)-1]
	}()
	cur := st
	for it := 0; ; it++ {
		for _, b := range iter {
			if b != l.header {
				delete(fr.ins, b)
			}
		}
		l.backRecs = nil
		fr.execBlockList(iter, l.header, cur, l)
		var recs []inEdge
		for _, r := range l.backRecs {
			if r.cond.S != "false" {
				recs = append(recs, r)
			}
		}
		if len(recs) == 0 {
			return
		}
		var conds []*Term
		var sts []*State
		for _, r := range recs {
			conds = append(conds, r.cond)
			sts = append(sts, r.st)
		}
		again := Or(conds...)
		if !fc.quickSat(again) {
			return
		}
		if it+1 >= maxUnroll {
			tmp := sts[0].clone()
			tmp.reach = TTrue
			fc.oblige(tmp, "unroll-bound", fr.path+fr.loopName(l), Not(again), fc.eng.fset.Position(l.minPos),
				fmt.Sprintf("loop without invariant has exited after %d unrolled iterations", maxUnroll))
			return
		}
		cur = fc.merge(sts, conds)
		fr.assignPhis(l.header, recs)
	}
}
func (fr *Frame) nameVal(prefix string, v Val) Val {
	if v.T != nil {
		return scalar(fr.fc.sc.Define(prefix, v.T))
	}
	out := Val{Fs: make([]Val, len(v.Fs))}
	for i, f := range v.Fs {
		out.Fs[i] = fr.nameVal(prefix, f)
	}
	return out
}

func phiName(p *ssa.Phi) string {
	if p.Comment != "" {
		return p.Comment
	}
	return p.Name()
}

// val returns the symbolic value of an SSA value.
func (fr *Frame) val(v ssa.Value) Val {
	if x, ok := fr.env[v]; ok {
		return x
	}
	fc := fr.fc
	switch v := v.(type) {
	case *ssa.Const:
		return fr.constVal(v)
	case *ssa.Global:
		return scalar(fc.eng.globalPtr(fc, v))
	case *ssa.Function:
		return scalar(IntLit(int64(fc.eng.funcID(v))))
	case *ssa.FreeVar:
		if x, ok := fr.freeBind[v]; ok {
			return x
		}
		unsup("free variable %s without binding in %s", v.Name(), fr.fn)
	case *ssa.Builtin:
		unsup("builtin %s used as value", v.Name())
	}
	unsup("value %s (%T) in %s not available (unreachable definition?)", v.Name(), v, fr.fn)
	return Val{}
}

func (fr *Frame) constVal(c *ssa.Const) Val {
	fc := fr.fc
	t := c.Type()
	if c.Value == nil {
		return fc.zeroVal(t)
	}
	switch c.Value.Kind() {
	case constant.Bool:
		return scalar(BoolLit(constant.BoolVal(c.Value)))
	case constant.String:
		return scalar(fc.sc.StrLit(constant.StringVal(c.Value)))
	case constant.Int:
		if s, _ := leafSort(t); s == SFlt {
			bi, _ := new(big.Int).SetString(c.Value.ExactString(), 10)
			return scalar(app(SFlt, "int2flt", BigLit(bi)))
		}
		bi, ok := new(big.Int).SetString(c.Value.ExactString(), 10)
		if !ok {
			unsup("int const %s", c.Value)
		}
		return scalar(BigLit(bi))
	case constant.Float:
		// opaque float constant, identified by its text
		name := "fltconst_" + sanitize(c.Value.ExactString())
		fc.sc.DeclFun(name, nil, SFlt)
		return scalar(mk(SFlt, name))
	}
	unsup("constant %s of kind %v", c, c.Value.Kind())
	return Val{}
}

// ---------------------------------------------------------------------------------------------
// blocks and instructions
// ---------------------------------------------------------------------------------------------

func (fr *Frame) execBlock(b *ssa.BasicBlock, st *State) {
	for _, in := range b.Instrs {
		switch in := in.(type) {
		case *ssa.Phi, *ssa.DebugRef:
			continue
		case *ssa.If:
			c := fr.val(in.Cond).T
			fr.out[b] = st
			fr.setEdge(b, b.Succs[0], And(st.reach, c), st)
			fr.setEdge(b, b.Succs[1], And(st.reach, Not(c)), st)
			return
		case *ssa.Jump:
			fr.out[b] = st
			fr.setEdge(b, b.Succs[0], st.reach, st)
			return
		case *ssa.Return:
			fr.out[b] = st
			var res []Val
			for _, r := range in.Results {
				res = append(res, fr.val(r))
			}
			fr.rets = append(fr.rets, retRec{st, res})
			return
		case *ssa.Panic:
			fr.out[b] = st
			fr.doPanic(in, st)
			return
		default:
			fr.execInstr(in, st)
		}
	}
	fr.out[b] = st
}

// setEdge records an edge taken from `from` to `to` under cond. Back edges of loops in invariant mode
// check the invariant instead; back edges of loops being unrolled feed the next iteration.
func (fr *Frame) setEdge(from, to *ssa.BasicBlock, cond *Term, st *State) {
	cond = fr.fc.sc.Define("edge", cond)
	if to.Dominates(from) {
		if l := fr.loopOf[to]; l != nil {
			if l.unrolling {
				l.backRecs = append(l.backRecs, inEdge{from: from, cond: cond, st: st.clone(), phis: fr.phiInputs(from, to)})
				return
			}
			fr.loopBack(l, from, cond, st)
			return
		}
	}
	rec := inEdge{from: from, cond: cond, st: st.clone(), phis: fr.phiInputs(from, to)}
	for _, l := range fr.unrolling {
		if l.blocks[from] && !l.blocks[to] {
			if rec.snap == nil {
				rec.snap = map[ssa.Value]Val{}
			}
			for _, v := range l.liveOut {
				if x, ok := fr.env[v]; ok {
					rec.snap[v] = x
				}
			}
		}
	}
	fr.ins[to] = append(fr.ins[to], rec)
}

func (fr *Frame) define(v ssa.Value, x Val) {
	fr.env[v] = fr.nameVal(v.Name()+"_"+sanitize(fr.fn.Name()), x)
}

func (fr *Frame) checkNonNil(st *State, p *Term, in ssa.Instruction, what string) {
	if strings.HasPrefix(p.S, "(mkptr ") {
		// pointer built from a known object; check the object part only
	}
	if blk, ok := fr.nonnil[p.S]; ok && blk.Dominates(in.Block()) {
		return
	}
	fr.nonnil[p.S] = in.Block()
	fr.fc.oblige(st, "nil", fr.path, Ne(PObj(p), IntLit(0)), fr.pos(in), what)
}

func (fr *Frame) execInstr(in ssa.Instruction, st *State) {
	fc := fr.fc
	ti := fc.eng.ti
	switch in := in.(type) {
	case *ssa.Alloc:
		elem := in.Type().Underlying().(*types.Pointer).Elem()
		if at, ok := elem.Underlying().(*types.Array); ok {
			// arrays are not flattened: the object's rows hold the elements from slot 0
			obj := fr.alloc(st, at.Elem())
			fr.env[in] = scalar(MkPtr(obj, IntLit(0)))
			break
		}
		obj := fr.alloc(st, elem)
		fr.env[in] = scalar(MkPtr(obj, IntLit(ti.BaseSlot(elem))))
	case *ssa.FieldAddr:
		p := fr.val(in.X).T
		fr.checkNonNil(st, p, in, "field address of nil pointer")
		stt := in.X.Type().Underlying().(*types.Pointer).Elem().Underlying().(*types.Struct)
		off := ti.FieldOffset(stt, in.Field)
		fr.define(in, scalar(MkPtr(PObj(p), Add(PSlot(p), IntLit(off)))))
	case *ssa.Field:
		x := fr.val(in.X)
		fr.env[in] = x.Fs[in.Field]
	case *ssa.IndexAddr:
		idx := fr.val(in.Index).T
		switch xt := in.X.Type().Underlying().(type) {
		case *types.Slice:
			s := fr.val(in.X).T
			fc.oblige(st, "bounds", fr.path, And(Le(IntLit(0), idx), Lt(idx, SLen(s))), fr.pos(in), "slice index in range")
			w := ti.LayoutOf(xt.Elem()).Width
			fr.define(in, scalar(MkPtr(SArr(s), Add(SOff(s), Mul(idx, IntLit(w))))))
		case *types.Pointer: // pointer to array
			at := xt.Elem().Underlying().(*types.Array)
			p := fr.val(in.X).T
			fr.checkNonNil(st, p, in, "index of nil array pointer")
			fc.oblige(st, "bounds", fr.path, And(Le(IntLit(0), idx), Lt(idx, IntLit(at.Len()))), fr.pos(in), "array index in range")
			w := ti.LayoutOf(at.Elem()).Width
			fr.define(in, scalar(MkPtr(PObj(p), Add(PSlot(p), Mul(idx, IntLit(w))))))
		default:
			unsup("IndexAddr on %s", in.X.Type())
		}
	case *ssa.Index:
		switch xt := in.X.Type().Underlying().(type) {
		case *types.Basic: // string
			s := fr.val(in.X).T
			idx := fr.val(in.Index).T
			fc.oblige(st, "bounds", fr.path, And(Le(IntLit(0), idx), Lt(idx, StrLen(s))), fr.pos(in), "string index in range")
			r := fc.sc.Define(in.Name(), app(SInt, "strbyte", s, idx))
			fc.assume(st, And(Le(IntLit(0), r), Le(r, IntLit(255))))
			fr.env[in] = scalar(r)
		case *types.Array:
			x := fr.val(in.X)
			if c, ok := in.Index.(*ssa.Const); ok {
				i, _ := constant.Int64Val(c.Value)
				if i < 0 || i >= xt.Len() {
					unsup("constant array index out of range")
				}
				fr.env[in] = x.Fs[i]
			} else {
				idx := fr.val(in.Index).T
				fc.oblige(st, "bounds", fr.path, And(Le(IntLit(0), idx), Lt(idx, IntLit(xt.Len()))), fr.pos(in), "array index in range")
				cur := x.Fs[len(x.Fs)-1]
				for i := len(x.Fs) - 2; i >= 0; i-- {
					cur = iteVal(Eq(idx, IntLit(int64(i))), x.Fs[i], cur)
				}
				fr.define(in, cur)
			}
		default:
			unsup("Index on %s", in.X.Type())
		}
	case *ssa.UnOp:
		fr.execUnOp(in, st)
	case *ssa.BinOp:
		fr.define(in, fr.binop(st, in, in.Op, fr.val(in.X), fr.val(in.Y), in.X.Type(), in.Type()))
	case *ssa.Store:
		p := fr.val(in.Addr).T
		fr.checkNonNil(st, p, in, "store through nil pointer")
		t := in.Addr.Type().Underlying().(*types.Pointer).Elem()
		fr.checkWrite(st, in, locItem{kind: "loc", obj: PObj(p), slot: PSlot(p), width: ti.LayoutOf(t).Width}, "store")
		fr.guardCheck(st, in, in.Addr, true)
		fc.store(st, p, t, fr.val(in.Val))
	case *ssa.Convert:
		fr.define(in, fr.convert(st, in, fr.val(in.X), in.X.Type(), in.Type()))
	case *ssa.ChangeType:
		fr.env[in] = fr.val(in.X)
	case *ssa.ChangeInterface:
		fr.env[in] = fr.val(in.X)
	case *ssa.MakeInterface:
		fr.define(in, scalar(fr.makeIface(st, fr.val(in.X), in.X.Type())))
	case *ssa.TypeAssert:
		fr.typeAssert(in, st)
	case *ssa.Extract:
		fr.env[in] = fr.val(in.Tuple).Fs[in.Index]
		if in.Index == 0 {
			fr.propagateGuard(in.Tuple, in)
		}
	case *ssa.MakeSlice:
		ln := fr.val(in.Len).T
		cp := fr.val(in.Cap).T
		fc.oblige(st, "bounds", fr.path, And(Le(IntLit(0), ln), Le(ln, cp)), fr.pos(in), "make: 0 <= len <= cap")
		et := in.Type().Underlying().(*types.Slice).Elem()
		fr.allocCheck(st, in, cp)
		fc.assume(st, Le(cp, maxAlloc)) // resource assumption: a successful allocation is < 2^48 elements
		obj := fr.alloc(st, et)
		fr.define(in, scalar(MkSlice(obj, IntLit(0), ln, cp)))
	case *ssa.MakeMap:
		obj := fr.allocMap(st, in.Type().Underlying().(*types.Map))
		if in.Reserve != nil {
			fr.allocCheck(st, in, fr.val(in.Reserve).T)
		}
		fr.env[in] = scalar(obj)
	case *ssa.MakeChan:
		obj := fr.allocRaw(st)
		fr.env[in] = scalar(obj)
	case *ssa.MakeClosure:
		id := fr.allocRaw(st)
		fr.env[in] = scalar(id)
		fr.closures[in] = in
		fc.eng.noteClosure(fc, id, in, fr)
	case *ssa.Slice:
		fr.execSlice(in, st)
	case *ssa.Lookup:
		fr.execLookup(in, st)
	case *ssa.MapUpdate:
		fr.execMapUpdate(in, st)
	case *ssa.Range:
		fr.execRange(in, st)
	case *ssa.Next:
		fr.execNext(in, st)
	case *ssa.Call:
		res := fr.call(in, &in.Call, st)
		if res != nil {
			rt := in.Type()
			if tup, ok := rt.(*types.Tuple); ok {
				if tup.Len() > 0 {
					fr.env[in] = fr.nameVal(in.Name(), Val{Fs: res})
				}
			} else if len(res) == 1 {
				fr.env[in] = fr.nameVal(in.Name(), res[0])
			}
		}
	case *ssa.Defer:
		d := deferRec{cond: st.reach, call: &in.Call, site: in}
		for _, a := range in.Call.Args {
			d.args = append(d.args, fr.val(a))
		}
		d.fnv = fr.val(in.Call.Value)
		fr.defers = append(fr.defers, d)
	case *ssa.RunDefers:
		fr.runDefers(in, st)
	case *ssa.Go:
		fr.execGo(in, st)
	case *ssa.Send:
		fr.lockWait(in, st, "channel send")
		fc.note("channel send modelled as no-op on the heap")
	case *ssa.Select:
		fr.execSelect(in, st)
	case *ssa.SliceToArrayPointer, *ssa.MultiConvert:
		unsup("%T", in)
	default:
		unsup("instruction %T (%s)", in, in)
	}
}

func isConstVal(v ssa.Value) bool {
	_, ok := v.(*ssa.Const)
	return ok
}

func maxI64(a, b int64) int64 {
	if a > b {
		return a
	}
	return b
}

func (fc *FnCtx) note(s string) { fc.assumptions[s] = true }

func (fr *Frame) alloc(st *State, elem types.Type) *Term {
	fc := fr.fc
	obj := fc.sc.Fresh("obj", SInt)
	fc.sc.Assert(app(SBool, "=", obj, st.next))
	st.next = fc.sc.Define("next", Add(st.next, IntLit(1)))
	// zero-initialise every leaf sort that occurs in elem
	sorts := map[Sort]bool{}
	collectLeafSorts(fc.eng.ti, elem, sorts, 0)
	var order []string
	for s := range sorts {
		order = append(order, string(s))
	}
	sort.Strings(order)
	for _, s := range order {
		srt := Sort(s)
		h := fc.leafHeap(st, srt)
		fc.setHeap(st, leafHeapName(srt), Store(h, obj, ConstArr(ArrSort(SInt, srt), fc.zero(srt))))
	}
	return obj
}

func (fr *Frame) allocRaw(st *State) *Term {
	fc := fr.fc
	obj := fc.sc.Fresh("obj", SInt)
	fc.sc.Assert(app(SBool, "=", obj, st.next))
	st.next = fc.sc.Define("next", Add(st.next, IntLit(1)))
	return obj
}

func collectLeafSorts(ti *TypeInfo, t types.Type, out map[Sort]bool, depth int) {
	if s, ok := leafSort(t); ok {
		out[s] = true
		return
	}
	for _, lf := range ti.LayoutOf(t).Leaves {
		out[lf.Sort] = true
	}
}

func (fr *Frame) execUnOp(in *ssa.UnOp, st *State) {
	fc := fr.fc
	switch in.Op {
	case token.MUL: // load
		p := fr.val(in.X).T
		if g, ok := in.X.(*ssa.Global); ok {
			if v, ok := fc.eng.globalConst(fc, g, st); ok {
				fr.env[in] = v
				return
			}
		}
		fr.checkNonNil(st, p, in, "load through nil pointer")
		fr.guardCheck(st, in, in.X, false)
		v := fc.load(st, p, in.Type())
		v = fr.nameVal(in.Name()+"_"+sanitize(fr.fn.Name()), v)
		fc.assume(st, fc.typeFacts(st, v, in.Type()))
		fr.env[in] = v
		// element reads of slices also exist as elt_S terms, the form quantified specs are triggered by
		if ia, ok := in.X.(*ssa.IndexAddr); ok {
			if sl, ok := ia.X.Type().Underlying().(*types.Slice); ok {
				if sv, ok := fr.env[ia.X]; ok {
					if iv, ok := fr.env[ia.Index]; ok || isConstVal(ia.Index) {
						if !ok {
							iv = fr.val(ia.Index)
						}
						lay := fc.eng.ti.LayoutOf(sl.Elem())
						leaves := flatten(v, nil)
						for k, lf := range lay.Leaves {
							h := fc.leafHeap(st, lf.Sort)
							e := app(lf.Sort, "elt_"+string(lf.Sort), Select(h, SArr(sv.T)), SOff(sv.T), Add(Mul(iv.T, IntLit(lay.Width)), IntLit(lf.Off)))
							fc.sc.Assert(Eq(e, leaves[k]))
						}
					}
				}
			}
		}
	case token.NOT:
		fr.define(in, scalar(Not(fr.val(in.X).T)))
	case token.SUB:
		x := fr.val(in.X).T
		if x.Sort == SFlt {
			fc.sc.DeclFun("fltneg", []Sort{SFlt}, SFlt)
			fr.define(in, scalar(app(SFlt, "fltneg", x)))
			return
		}
		fr.define(in, scalar(fr.wrapInt(st, in, Neg(x), in.Type())))
	case token.XOR:
		fc.sc.DeclFun("bitnot", []Sort{SInt}, SInt)
		r := fc.sc.Define(in.Name(), app(SInt, "bitnot", fr.val(in.X).T))
		fc.assume(st, fc.typeFacts(st, scalar(r), in.Type()))
		fr.env[in] = scalar(r)
	case token.ARROW:
		// channel receive: arbitrary value
		fr.lockWait(in, st, "channel receive")
		fc.note("channel receive yields an arbitrary value; blocking not modelled")
		fr.noteReceived(fr.val(in.X).T, st)
		if in.CommaOk {
			v := fc.freshVal("recv", in.Type().(*types.Tuple).At(0).Type())
			ok := fc.sc.Fresh("recvok", SBool)
			fr.env[in] = Val{Fs: []Val{v, scalar(ok)}}
		} else {
			v := fc.freshVal("recv", in.Type())
			fc.assume(st, fc.typeFacts(st, v, in.Type()))
			fr.env[in] = v
		}
	default:
		unsup("unary op %s", in.Op)
	}
}

// wrapInt reduces an exact mathematical result to the machine type t (two's complement wrap) and,
// when overflow checking is on for this function, obliges that no wrap happens.
func (fr *Frame) wrapInt(st *State, in ssa.Instruction, exact *Term, t types.Type) *Term {
	fc := fr.fc
	lo, hi, ok := intRange(t, fc.eng.ti.sizes)
	if !ok {
		return exact
	}
	inRange := And(Le(BigLit(lo), exact), Le(exact, BigLit(hi)))
	if fc.checkOverflow {
		fc.oblige(st, "overflow", fr.path, inRange, fr.pos(in), "arithmetic result fits "+t.String())
		return exact
	}
	fc.note("machine arithmetic treated as mathematical (no wrap-around) in functions without `check overflow`")
	return exact
}

func (fr *Frame) binop(st *State, in ssa.Instruction, op token.Token, xv, yv Val, xt, rt types.Type) Val {
	fc := fr.fc
	if xv.T == nil {
		// struct / array comparison
		switch op {
		case token.EQL:
			return scalar(eqVal(xv, yv))
		case token.NEQ:
			return scalar(Not(eqVal(xv, yv)))
		}
		unsup("binop %s on aggregate", op)
	}
	x, y := xv.T, yv.T
	switch x.Sort {
	case SInt:
		if _, isInt := xt.Underlying().(*types.Basic); !isInt {
			// map / chan / func comparison with nil
			switch op {
			case token.EQL:
				return scalar(Eq(x, y))
			case token.NEQ:
				return scalar(Ne(x, y))
			}
			unsup("binop %s on %s", op, xt)
		}
		switch op {
		case token.ADD:
			return scalar(fr.wrapInt(st, in, Add(x, y), rt))
		case token.SUB:
			return scalar(fr.wrapInt(st, in, Sub(x, y), rt))
		case token.MUL:
			return scalar(fr.wrapInt(st, in, Mul(x, y), rt))
		case token.QUO, token.REM:
			fc.oblige(st, "div0", fr.path, Ne(y, IntLit(0)), fr.pos(in), "division by zero")
			name := "dv"
			if op == token.REM {
				name = "md"
			}
			if isNumeral(y.S) && y.S != "0" {
				// constant divisor: exact SMT div/mod for non-negative dividends; Go truncates toward zero
				q := "div"
				if op == token.REM {
					q = "mod"
				}
				pos := app(SInt, q, x, y)
				negv := Neg(app(SInt, q, Neg(x), y))
				return scalar(Ite(Ge(x, IntLit(0)), pos, negv))
			}
			r := fc.sc.Define("dm", app(SInt, name, x, y))
			fc.assume(st, fc.typeFacts(st, scalar(r), rt))
			return scalar(r)
		case token.EQL:
			return scalar(Eq(x, y))
		case token.NEQ:
			return scalar(Ne(x, y))
		case token.LSS:
			return scalar(Lt(x, y))
		case token.LEQ:
			return scalar(Le(x, y))
		case token.GTR:
			return scalar(Gt(x, y))
		case token.GEQ:
			return scalar(Ge(x, y))
		case token.SHL:
			if isNumeral(y.S) {
				n, _ := new(big.Int).SetString(y.S, 10)
				if n.IsInt64() && n.Int64() < 64 {
					m := new(big.Int).Lsh(big.NewInt(1), uint(n.Int64()))
					return scalar(fr.truncInt(Mul(x, BigLit(m)), rt))
				}
			}
			return scalar(fr.opaqueBits(st, "shl", x, y, rt))
		case token.SHR:
			if isNumeral(y.S) {
				n, _ := new(big.Int).SetString(y.S, 10)
				if n.IsInt64() && n.Int64() < 64 {
					m := new(big.Int).Lsh(big.NewInt(1), uint(n.Int64()))
					return scalar(app(SInt, "div", x, BigLit(m)))
				}
			}
			return scalar(fr.opaqueBits(st, "shr", x, y, rt))
		case token.AND:
			// x & (2^k - 1) is exact modulo
			if isNumeral(y.S) {
				n, _ := new(big.Int).SetString(y.S, 10)
				n1 := new(big.Int).Add(n, big.NewInt(1))
				if n1.BitLen() > 0 && new(big.Int).And(n1, n).Sign() == 0 {
					return scalar(app(SInt, "mod", x, BigLit(n1)))
				}
			}
			r := fr.opaqueBits(st, "bitand", x, y, rt)
			// sound facts for non-negative operands
			fc.assume(st, Implies(And(Ge(x, IntLit(0)), Ge(y, IntLit(0))), And(Le(IntLit(0), r), Le(r, x), Le(r, y))))
			return scalar(r)
		case token.OR:
			return scalar(fr.opaqueBits(st, "bitor", x, y, rt))
		case token.XOR:
			return scalar(fr.opaqueBits(st, "bitxor", x, y, rt))
		case token.AND_NOT:
			return scalar(fr.opaqueBits(st, "bitandnot", x, y, rt))
		}
	case SBool:
		switch op {
		case token.EQL:
			return scalar(Eq(x, y))
		case token.NEQ:
			return scalar(Ne(x, y))
		case token.LAND, token.AND:
			return scalar(And(x, y))
		case token.LOR, token.OR:
			return scalar(Or(x, y))
		}
	case SStr:
		switch op {
		case token.EQL:
			return scalar(Eq(x, y))
		case token.NEQ:
			return scalar(Ne(x, y))
		case token.ADD:
			return scalar(app(SStr, "strcat", x, y))
		case token.LSS:
			fc.sc.usesStrLt = true
			return scalar(app(SBool, "strlt", x, y))
		case token.GTR:
			fc.sc.usesStrLt = true
			return scalar(app(SBool, "strlt", y, x))
		case token.LEQ:
			fc.sc.usesStrLt = true
			return scalar(Not(app(SBool, "strlt", y, x)))
		case token.GEQ:
			fc.sc.usesStrLt = true
			return scalar(Not(app(SBool, "strlt", x, y)))
		}
	case SPtr, SIface, SSlice:
		switch op {
		case token.EQL:
			return scalar(Eq(x, y))
		case token.NEQ:
			return scalar(Ne(x, y))
		}
	case SFlt:
		name := map[token.Token]string{token.ADD: "fltadd", token.SUB: "fltsub", token.MUL: "fltmul", token.QUO: "fltdiv"}[op]
		if name != "" {
			fc.sc.DeclFun(name, []Sort{SFlt, SFlt}, SFlt)
			return scalar(app(SFlt, name, x, y))
		}
		cmp := map[token.Token]string{token.LSS: "fltlt", token.LEQ: "fltle", token.GTR: "fltgt", token.GEQ: "fltge", token.EQL: "flteq", token.NEQ: "fltne"}[op]
		if cmp != "" {
			fc.sc.DeclFun(cmp, []Sort{SFlt, SFlt}, SBool)
			fc.note("floating point operations are opaque")
			return scalar(app(SBool, cmp, x, y))
		}
	}
	unsup("binop %s on %s", op, xt)
	return Val{}
}

func isNumeral(s string) bool {
	if s == "" {
		return false
	}
	for _, c := range s {
		if c < '0' || c > '9' {
			return false
		}
	}
	return true
}

func (fr *Frame) opaqueBits(st *State, name string, x, y *Term, rt types.Type) *Term {
	fc := fr.fc
	fc.sc.DeclFun(name, []Sort{SInt, SInt}, SInt)
	r := fc.sc.Define(name, app(SInt, name, x, y))
	fc.assume(st, fc.typeFacts(st, scalar(r), rt))
	fc.note("bitwise operator " + name + " is uninterpreted (result only known to be in range)")
	return r
}

// truncInt wraps exact into the range of t (mod 2^bits, sign adjusted).
func (fr *Frame) truncInt(exact *Term, t types.Type) *Term {
	lo, hi, ok := intRange(t, fr.fc.eng.ti.sizes)
	if !ok {
		return exact
	}
	size := new(big.Int).Add(new(big.Int).Sub(hi, lo), big.NewInt(1))
	m := app(SInt, "mod", exact, BigLit(size)) // SMT mod is always non-negative for positive modulus
	if lo.Sign() == 0 {
		return m
	}
	return Ite(Gt(m, BigLit(hi)), Sub(m, BigLit(size)), m)
}

func (fr *Frame) convert(st *State, in ssa.Instruction, xv Val, from, to types.Type) Val {
	fc := fr.fc
	fs, _ := leafSort(from)
	ts, _ := leafSort(to)
	x := xv.T
	switch {
	case fs == SInt && ts == SInt:
		flo, fhi, ok1 := intRange(from, fc.eng.ti.sizes)
		tlo, thi, ok2 := intRange(to, fc.eng.ti.sizes)
		if !ok1 || !ok2 {
			return xv
		}
		if tlo.Cmp(flo) <= 0 && thi.Cmp(fhi) >= 0 {
			return xv // widening: exact
		}
		return scalar(fr.truncInt(x, to))
	case fs == SInt && ts == SFlt:
		return scalar(app(SFlt, "int2flt", x))
	case fs == SFlt && ts == SInt:
		fc.sc.DeclFun("flt2int", []Sort{SFlt}, SInt)
		r := fc.sc.Define("f2i", app(SInt, "flt2int", x))
		fc.assume(st, fc.typeFacts(st, scalar(r), to))
		fc.note("float to integer conversion is opaque")
		return scalar(r)
	case fs == SFlt && ts == SFlt:
		return xv
	case fs == SSlice && ts == SStr:
		// string(bytes)
		h := fc.leafHeap(st, SInt)
		return scalar(app(SStr, "mkstr", Select(h, SArr(x)), SOff(x), SLen(x)))
	case fs == SStr && ts == SSlice:
		// []byte(s): fresh array holding the bytes of s
		et := to.Underlying().(*types.Slice).Elem()
		if b, ok := et.Underlying().(*types.Basic); !ok || b.Kind() != types.Uint8 {
			unsup("conversion string -> %s", to)
		}
		obj := fr.alloc(st, et)
		row := fc.sc.Fresh("bytes", ArrSort(SInt, SInt))
		i := mk(SInt, "i!q")
		fc.sc.Assert(mk(SBool, fmt.Sprintf("(forall ((i!q Int)) (! (=> (and (<= 0 i!q) (< i!q %s)) (= (select %s i!q) (strbyte %s i!q))) :pattern ((select %s i!q))))",
			StrLen(x).S, row.S, x.S, row.S)))
		_ = i
		h := fc.leafHeap(st, SInt)
		fc.setHeap(st, leafHeapName(SInt), Store(h, obj, row))
		fc.sc.Assert(mk(SBool, fmt.Sprintf("(forall ((i!q Int)) (! (and (<= 0 (strbyte %s i!q)) (<= (strbyte %s i!q) 255)) :pattern ((strbyte %s i!q))))", x.S, x.S, x.S)))
		return scalar(MkSlice(obj, IntLit(0), StrLen(x), StrLen(x)))
	case fs == SInt && ts == SStr:
		fc.sc.DeclFun("rune2str", []Sort{SInt}, SStr)
		return scalar(app(SStr, "rune2str", x))
	case fs == SPtr && ts == SPtr:
		return xv
	}
	unsup("conversion %s -> %s", from, to)
	return Val{}
}

// makeIface boxes value v of static type t into an interface value.
func (fr *Frame) makeIface(st *State, v Val, t types.Type) *Term {
	fc := fr.fc
	if _, isIface := t.Underlying().(*types.Interface); isIface {
		return v.T
	}
	tag := fc.eng.ti.TagOf(t)
	fc.concreteTags[tag] = t
	pay := fc.box(v, t)
	return MkIface(IntLit(int64(tag)), pay)
}

// box encodes a value as an Int payload; unbox facts are instantiated here.
func (fc *FnCtx) box(v Val, t types.Type) *Term {
	if v.T != nil {
		switch v.T.Sort {
		case SInt:
			return v.T
		case SBool:
			return Ite(v.T, IntLit(1), IntLit(0))
		default:
			b, u := "box_"+string(v.T.Sort), "unbox_"+string(v.T.Sort)
			fc.sc.DeclFun(b, []Sort{v.T.Sort}, SInt)
			fc.sc.DeclFun(u, []Sort{SInt}, v.T.Sort)
			// re-boxing a value that was just taken out of an interface gives the same payload back
			// (box and unbox are inverse on payloads carrying this type's tag)
			if pre := "(" + u + " "; strings.HasPrefix(v.T.S, pre) && strings.HasSuffix(v.T.S, ")") {
				inner := v.T.S[len(pre) : len(v.T.S)-1]
				if balanced(inner) {
					return mk(SInt, inner)
				}
			}
			if !fc.boxInv[string(v.T.Sort)] {
				if fc.boxInv == nil {
					fc.boxInv = map[string]bool{}
				}
				fc.boxInv[string(v.T.Sort)] = true
				fc.sc.Assert(mk(SBool, fmt.Sprintf("(forall ((p!q Int)) (! (= (%s (%s p!q)) p!q) :pattern ((%s (%s p!q)))))", b, u, b, u)))
			}
			p := fc.sc.Define("boxed", app(SInt, b, v.T))
			fc.sc.Assert(Eq(app(v.T.Sort, u, p), v.T))
			return p
		}
	}
	leaves := flatten(v, nil)
	if len(leaves) == 0 {
		return IntLit(0)
	}
	tn := sanitize(types.TypeString(t, nil))
	var sorts []Sort
	for _, l := range leaves {
		sorts = append(sorts, l.Sort)
	}
	fc.sc.DeclFun("boxs_"+tn, sorts, SInt)
	p := fc.sc.Define("boxed", app(SInt, "boxs_"+tn, leaves...))
	for i, l := range leaves {
		un := fmt.Sprintf("unboxs_%s_%d", tn, i)
		fc.sc.DeclFun(un, []Sort{SInt}, l.Sort)
		fc.sc.Assert(Eq(app(l.Sort, un, p), l))
	}
	return p
}

func (fc *FnCtx) unbox(pay *Term, t types.Type) Val {
	if s, ok := leafSort(t); ok {
		switch s {
		case SInt:
			return scalar(pay)
		case SBool:
			return scalar(Eq(pay, IntLit(1)))
		default:
			b, u := "box_"+string(s), "unbox_"+string(s)
			fc.sc.DeclFun(b, []Sort{s}, SInt)
			fc.sc.DeclFun(u, []Sort{SInt}, s)
			return scalar(app(s, u, pay))
		}
	}
	lay := fc.eng.ti.LayoutOf(t)
	tn := sanitize(types.TypeString(t, nil))
	var sorts []Sort
	for _, l := range lay.Leaves {
		sorts = append(sorts, l.Sort)
	}
	fc.sc.DeclFun("boxs_"+tn, sorts, SInt)
	leaves := make([]*Term, len(lay.Leaves))
	for i, l := range lay.Leaves {
		un := fmt.Sprintf("unboxs_%s_%d", tn, i)
		fc.sc.DeclFun(un, []Sort{SInt}, l.Sort)
		leaves[i] = app(l.Sort, un, pay)
	}
	pos := 0
	return fc.unflatten(t, leaves, &pos)
}

func (fc *FnCtx) implPred(iface types.Type) string {
	tag := fc.eng.ti.TagOf(iface)
	fc.ifaceAsserts[tag] = iface
	name := fmt.Sprintf("impl!%d", tag)
	fc.sc.DeclFun(name, []Sort{SInt}, SBool)
	return name
}

func (fr *Frame) typeAssert(in *ssa.TypeAssert, st *State) {
	fc := fr.fc
	x := fr.val(in.X).T
	var ok *Term
	var v Val
	if _, isIface := in.AssertedType.Underlying().(*types.Interface); isIface {
		if it := in.AssertedType.Underlying().(*types.Interface); it.NumMethods() == 0 || types.Implements(in.X.Type(), it) {
			// the static type already guarantees the methods: only nil-ness is tested
			ok = Ne(ITag(x), IntLit(0))
		} else if tv, isNum := numVal(ITag(x)); isNum && tv.IsInt64() && tv.Int64() >= 1 && int(tv.Int64()) <= len(fc.eng.ti.idxType) {
			// dynamic type known: decide the assertion now
			ok = BoolLit(types.Implements(fc.eng.ti.idxType[tv.Int64()-1], in.AssertedType.Underlying().(*types.Interface)))
		} else if tv, isNum := numVal(ITag(x)); isNum && tv.Sign() == 0 {
			ok = TFalse
		} else {
			ok = And(Ne(ITag(x), IntLit(0)), app(SBool, fc.implPred(in.AssertedType), ITag(x)))
		}
		v = scalar(x)
	} else {
		tag := fc.eng.ti.TagOf(in.AssertedType)
		fc.concreteTags[tag] = in.AssertedType
		ok = Eq(ITag(x), IntLit(int64(tag)))
		v = fc.unbox(IPay(x), in.AssertedType)
	}
	okc := fc.sc.Define("taok", ok)
	if in.CommaOk {
		zero := fc.zeroVal(in.AssertedType)
		res := fr.nameVal(in.Name(), iteVal(okc, v, zero))
		fc.assume(st, Implies(okc, fc.typeFacts(st, res, in.AssertedType)))
		fr.env[in] = Val{Fs: []Val{res, scalar(okc)}}
		return
	}
	fc.oblige(st, "assert-type", fr.path, okc, fr.pos(in), "type assertion to "+in.AssertedType.String())
	res := fr.nameVal(in.Name(), v)
	fc.assume(st, fc.typeFacts(st, res, in.AssertedType))
	fr.env[in] = res
}

func (fr *Frame) execSlice(in *ssa.Slice, st *State) {
	fc := fr.fc
	var lo, hi, mx *Term
	if in.Low != nil {
		lo = fr.val(in.Low).T
	} else {
		lo = IntLit(0)
	}
	switch xt := in.X.Type().Underlying().(type) {
	case *types.Slice:
		s := fr.val(in.X).T
		if in.High != nil {
			hi = fr.val(in.High).T
		} else {
			hi = SLen(s)
		}
		if in.Max != nil {
			mx = fr.val(in.Max).T
		} else {
			mx = SCap(s)
		}
		fc.oblige(st, "bounds", fr.path, And(Le(IntLit(0), lo), Le(lo, hi), Le(hi, mx), Le(mx, SCap(s))), fr.pos(in), "slice bounds in range")
		w := fc.eng.ti.LayoutOf(xt.Elem()).Width
		fr.define(in, scalar(MkSlice(SArr(s), Add(SOff(s), Mul(lo, IntLit(w))), Sub(hi, lo), Sub(mx, lo))))
	case *types.Basic: // string
		s := fr.val(in.X).T
		if in.High != nil {
			hi = fr.val(in.High).T
		} else {
			hi = StrLen(s)
		}
		fc.oblige(st, "bounds", fr.path, And(Le(IntLit(0), lo), Le(lo, hi), Le(hi, StrLen(s))), fr.pos(in), "string slice bounds in range")
		fc.sc.DeclFun("substr", []Sort{SStr, SInt, SInt}, SStr)
		r := fc.sc.Define("substr", app(SStr, "substr", s, lo, hi))
		fc.assume(st, Eq(StrLen(r), Sub(hi, lo)))
		fr.env[in] = scalar(r)
	case *types.Pointer: // pointer to array
		at := xt.Elem().Underlying().(*types.Array)
		p := fr.val(in.X).T
		fr.checkNonNil(st, p, in, "slice of nil array pointer")
		n := IntLit(at.Len())
		if in.High != nil {
			hi = fr.val(in.High).T
		} else {
			hi = n
		}
		if in.Max != nil {
			mx = fr.val(in.Max).T
		} else {
			mx = n
		}
		fc.oblige(st, "bounds", fr.path, And(Le(IntLit(0), lo), Le(lo, hi), Le(hi, mx), Le(mx, n)), fr.pos(in), "array slice bounds in range")
		w := fc.eng.ti.LayoutOf(at.Elem()).Width
		fr.define(in, scalar(MkSlice(PObj(p), Add(PSlot(p), Mul(lo, IntLit(w))), Sub(hi, lo), Sub(mx, lo))))
	default:
		unsup("slice of %s", in.X.Type())
	}
}

// recovers: does one of this frame's deferred closures call recover()?
func (fr *Frame) recovers() bool {
	for _, d := range fr.defers {
		var f *ssa.Function
		if mc, ok := d.call.Value.(*ssa.MakeClosure); ok {
			f = mc.Fn.(*ssa.Function)
		} else if sf := d.call.StaticCallee(); sf != nil {
			f = sf
		}
		if f == nil {
			continue
		}
		for _, b := range f.Blocks {
			for _, in := range b.Instrs {
				if c, ok := in.(*ssa.Call); ok {
					if bi, ok := c.Call.Value.(*ssa.Builtin); ok && bi.Name() == "recover" {
						return true
					}
				}
			}
		}
	}
	return false
}

// somebodyRecovers: this frame or one of its callers (inlining chain) has a recovering defer.
func (fr *Frame) somebodyRecovers() bool {
	for f := fr; f != nil; f = f.parent {
		if f.recovers() {
			return true
		}
	}
	return false
}

func (fr *Frame) doPanic(in *ssa.Panic, st *State) {
	fc := fr.fc
	if fr.somebodyRecovers() {
		// an explicit panic under a recovering frame is a control transfer, not an error
		fr.panics = append(fr.panics, st.clone())
		return
	}
	// explicit panic: must be unreachable unless the contract allows it
	if fr.spec != nil && fr.depth == 0 {
		if cs := fr.spec.ClausesOf("panics"); len(cs) > 0 {
			// panics <cond over entry state>: reaching here requires cond
			var conds []*Term
			for _, c := range cs {
				ev := fr.evalCtx(fr.entry, fr.entry)
				conds = append(conds, ev.evalBool(c.Expr))
			}
			fc.oblige(st, "panic", fr.path, Or(conds...), fr.pos(in), "explicit panic only under the declared condition")
			return
		}
	}
	fc.oblige(st, "panic", fr.path, TFalse, fr.pos(in), "explicit panic is unreachable")
}

func (fr *Frame) execGo(in *ssa.Go, st *State) {
	fr.fc.note("goroutine bodies are not part of the spawning function (go statement = no effect on the spawner's heap)")
	n := fr.fc.ghostInt(st, "spawned")
	st.ghosts["spawned"] = fr.fc.sc.Define("spawned", Add(n, IntLit(1)))
}

func (fc *FnCtx) ghostInt(st *State, name string) *Term {
	return fc.ghost(st, name, SInt)
}

func (fr *Frame) execSelect(in *ssa.Select, st *State) {
	fc := fr.fc
	if in.Blocking {
		fr.lockWait(in, st, "select")
	}
	fc.note("select: nondeterministic ready case, received values arbitrary")
	tup := in.Type().(*types.Tuple)
	idx := fc.sc.Fresh("selidx", SInt)
	lo := int64(0)
	if !in.Blocking {
		lo = -1
	}
	fc.assume(st, And(Le(IntLit(lo), idx), Lt(idx, IntLit(int64(len(in.States))))))
	vals := []Val{scalar(idx), scalar(fc.sc.Fresh("selok", SBool))}
	for i := 2; i < tup.Len(); i++ {
		vals = append(vals, fc.freshVal("selrecv", tup.At(i).Type()))
	}
	fr.env[in] = Val{Fs: vals}
}

// localByName finds the value of source-level local `name` as seen at the entry of block `at`
// (at == nil: function exit / call sites, where only parameters - at their entry value - are visible).
// The reaching definition is found the way SSA renaming does: walk the dominator chain upwards from
// `at`; in `at` itself only phis at its head count; in a dominating block the last definition event
// (phi for the variable, or a DebugRef to it) gives the value.
func (fr *Frame) localByName(name string, at *ssa.BasicBlock, st *State) (Val, types.Type, bool) {
	fn := fr.fn
	if at == nil {
		for _, p := range fn.Params {
			if p.Name() == name {
				return fr.env[p], p.Type(), true
			}
		}
		return fr.freeVarByName(name, st)
	}
	// which object does `name` denote at this point?
	var obj types.Object
	if pos := fr.posOfBlock(at); pos.IsValid() && fnTypesPkg(fn) != nil {
		if sc := fnTypesPkg(fn).Scope().Innermost(pos); sc != nil {
			_, obj = sc.LookupParent(name, pos)
		}
	}
	info := fr.fc.eng.typesInfo(fn)
	matches := func(d *ssa.DebugRef) bool {
		id, ok := d.Expr.(*ast.Ident)
		if !ok || id.Name != name {
			return false
		}
		if obj != nil && info != nil {
			if o := info.ObjectOf(id); o != nil && o != obj {
				return false
			}
		}
		return true
	}
	fr.lastLocalAddr = nil
	for b := at; b != nil; b = b.Idom() {
		var found ssa.Value
		isAddr := false
		// at a call site (callspec) the definitions of the site's own block that precede the call count too
		inAt := b == at && !(fr.siteLimit != nil && fr.siteLimit.Block() == at)
		for _, in := range b.Instrs {
			if b == at && fr.siteLimit != nil && in == fr.siteLimit {
				break
			}
			switch x := in.(type) {
			case *ssa.Phi:
				if x.Comment == name {
					found, isAddr = x, false
				}
			case *ssa.DebugRef:
				if !inAt && matches(x) {
					found, isAddr = x.X, x.IsAddr
				}
			case *ssa.Alloc:
				if !inAt && x.Comment == name {
					found, isAddr = x, true
				}
			}
		}
		if found == nil {
			continue
		}
		if phi, ok := found.(*ssa.Phi); ok {
			if ov, ok := fr.phiOv[phi]; ok {
				return ov, phi.Type(), true
			}
		}
		if _, have := fr.env[found]; !have {
			switch found.(type) {
			case *ssa.Const, *ssa.Global, *ssa.Function, *ssa.Parameter, *ssa.FreeVar:
			default:
				return Val{}, nil, false
			}
		}
		v := fr.val(found)
		if isAddr {
			pt := found.Type().Underlying().(*types.Pointer).Elem()
			fr.lastLocalAddr = v.T
			return fr.fc.load(st, v.T, pt), pt, true
		}
		return v, found.Type(), true
	}
	for _, p := range fn.Params {
		if p.Name() == name {
			return fr.env[p], p.Type(), true
		}
	}
	return fr.freeVarByName(name, st)
}

func (fr *Frame) freeVarByName(name string, st *State) (Val, types.Type, bool) {
	for _, fv := range fr.fn.FreeVars {
		if fv.Name() == name {
			v := fr.val(fv)
			// captured by reference: pointer to the variable
			if pt, ok := fv.Type().Underlying().(*types.Pointer); ok {
				return fr.fc.load(st, v.T, pt.Elem()), pt.Elem(), true
			}
			return v, fv.Type(), true
		}
	}
	return Val{}, nil, false
}

func (fr *Frame) posOfBlock(b *ssa.BasicBlock) token.Pos {
	if l := fr.loopOf[b]; l != nil && l.minPos.IsValid() {
		return l.minPos
	}
	for _, in := range b.Instrs {
		if _, isDbg := in.(*ssa.DebugRef); isDbg {
			continue
		}
		if in.Pos().IsValid() {
			return in.Pos()
		}
	}
	return token.NoPos
}


// balanced: s is one complete s-expression (or an atom)
func balanced(s string) bool {
	depth := 0
	for i, c := range s {
		switch c {
		case '(':
			depth++
		case ')':
			depth--
			if depth < 0 {
				return false
			}
			if depth == 0 && i != len(s)-1 {
				return false
			}
		case ' ':
			if depth == 0 {
				return false
			}
		}
	}
	return depth == 0
}


// lockWait: a blocking wait (channel receive / send, blocking select, WaitGroup.Wait, time.Sleep) while holding a lock
// this function took itself makes every other user of that lock wait as long: obligation that the lock set is
// what it was on entry. (Locks the CALLER holds are the caller's obligation.)
func (fr *Frame) lockWait(site ssa.Instruction, st *State, what string) {
	fc := fr.fc
	var conj []*Term
	if h, ok := st.ghosts["held"]; ok {
		conj = append(conj, Eq(h, fc.ghostInit("held", h.Sort)))
	}
	if h, ok := st.ghosts["rheld"]; ok {
		conj = append(conj, Eq(h, fc.ghostInit("rheld", h.Sort)))
	}
	if len(conj) == 0 {
		return
	}
	fc.oblige(st, "lock-wait", fr.path, And(conj...), fr.pos(site), "no lock taken by this function is held across a blocking wait ("+what+")")
}


// stripTypeArgs removes type-parameter / type-argument lists "[...]" from a function key:
// (*pkg.Future[T]).close -> (*pkg.Future).close
func stripTypeArgs(k string) string {
	var sb strings.Builder
	depth := 0
	for _, c := range k {
		switch c {
		case '[':
			depth++
		case ']':
			depth--
		default:
			if depth == 0 {
				sb.WriteRune(c)
			}
		}
	}
	return sb.String()
}
