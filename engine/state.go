package main

import (
	"golang.org/x/tools/go/ssa"
	"os"
	"fmt"
	"go/token"
	"go/types"
	"sort"
	"strings"
)

// State is the symbolic machine state at a program point.
type State struct {
	reach  *Term            // condition under which this point is reached
	heaps  map[string]*Term // heap name -> current array term
	next   *Term            // allocation counter (Int)
	ghosts map[string]*Term // ghost variables (held lock set, seen sets, counters ...)
	// epochs: a ghost / heap that has not been materialised in this state yet gets its initial constant
	// per epoch; a havoc that may touch not-yet-materialised ghosts / heaps starts a new epoch (= fresh values)
	gEpoch int
	hEpoch int
}

func (s *State) clone() *State {
	n := &State{reach: s.reach, next: s.next, gEpoch: s.gEpoch, hEpoch: s.hEpoch, heaps: make(map[string]*Term, len(s.heaps)), ghosts: make(map[string]*Term, len(s.ghosts))}
	for k, v := range s.heaps {
		n.heaps[k] = v
	}
	for k, v := range s.ghosts {
		n.ghosts[k] = v
	}
	return n
}

type Obligation struct {
	Name    string
	Kind    string
	Func    string
	NFacts  int
	NegGoal string
	PreGoal   string // call covers: reach condition before the callee contract was assumed
	PreNFacts int
	Pos     token.Position
	Desc    string
	Script  *Script
	// result
	Status string // proved | failed | unknown
	Solver string
	TimeS  float64
	Output string
	Model  string
	QF     bool
	Ctx    *FnCtx // the function context that generated it (model replay needs the entry values)
}

// FnCtx is the verification context of one top-level function (one Script).
type FnCtx struct {
	staleInv map[string]bool // loop invariants already reported as stale (file:line)
	topFn     *ssa.Function // the function under verification and its symbolic parameters (model replay)
	topParams []Val
	eng       *Engine
	sc        *Script
	key       string
	obls      []*Obligation
	initHeaps map[string]*Term
	heapSorts map[string]Sort
	kindCount map[string]int
	assumptions map[string]bool
	inlined   map[string]bool
	usedContracts map[string]bool
	ifaceAsserts map[int]types.Type // interface types used in type assertions (by tag)
	concreteTags map[int]types.Type
	covers    []*Obligation
	checkOverflow bool
	closures  map[string]*closureRec
	initGhosts map[string]*Term
	errGlobals []string
	unrollTop  bool
	usesPtrTag bool
	wfDone     map[string]bool
	boxInv     map[string]bool
	callCovered map[string]bool
	next0      *Term
	epochs     int
	ghostSorts map[string]Sort
	hvBound    *Term // allocation bound valid for values appearing through the havoc in progress
}

// ghostInit returns the initial (function entry) value of ghost variable name.
func (fc *FnCtx) ghostInit(name string, sort Sort) *Term {
	if g, ok := fc.initGhosts[name]; ok {
		return g
	}
	g := fc.sc.Fresh("g0_"+name, sort)
	fc.initGhosts[name] = g
	if (name == "held" || name == "rheld") && fc.next0 != nil {
		// a lock inside an object this function allocates cannot be held on entry
		fc.sc.Assert(mk(SBool, fmt.Sprintf("(forall ((p!q Ptr)) (! (=> (select %s p!q) (< (pobj p!q) %s)) :pattern ((select %s p!q))))", g.S, fc.next0.S, g.S)))
	}
	return g
}

func (fc *FnCtx) ghost(st *State, name string, sort Sort) *Term {
	if fc.ghostSorts == nil {
		fc.ghostSorts = map[string]Sort{}
	}
	if sort != "" {
		fc.ghostSorts[name] = sort
	}
	if g, ok := st.ghosts[name]; ok {
		return g
	}
	if st.gEpoch > 0 {
		return fc.ghostInit(fmt.Sprintf("%s@%d", name, st.gEpoch), sort)
	}
	return fc.ghostInit(name, sort)
}

func (fc *FnCtx) heapSortOf(name string) Sort {
	if s, ok := fc.heapSorts[name]; ok {
		return s
	}
	panic("unknown heap " + name)
}

// heap returns the current term of heap `name` in state st.
func (fc *FnCtx) heap(st *State, name string, sort Sort) *Term {
	if t, ok := st.heaps[name]; ok {
		return t
	}
	key := name
	if st.hEpoch > 0 {
		key = fmt.Sprintf("%s@%d", name, st.hEpoch)
	}
	if t, ok := fc.initHeaps[key]; ok {
		return t
	}
	fc.heapSorts[name] = sort
	t := fc.sc.Fresh("H0_"+name, sort)
	fc.initHeaps[key] = t
	if st.hEpoch == 0 {
		fc.wfHeapFact(t, fc.next0)
	} else {
		fc.wfHeapFact(t, st.next)
	}
	return t
}

// wfHeapFact: every reference stored anywhere in heap h denotes an object allocated before `bound`
// (heap well-formedness, stated once per unconstrained heap / row so that it is available under quantifiers).
// freshRegion: a callee may have allocated objects (ids in [pre, nn)) and initialised them. For the heaps that
// carry heap-wide reference facts (Ptr, Slice and map value heaps) the rows of that region are new: a new heap
// version agrees with the old one below `pre`; its rows hold references below nn.
func (fc *FnCtx) freshRegion(st *State, pre, nn *Term) {
	frame := func(nh, old *Term) {
		fc.sc.Assert(mk(SBool, fmt.Sprintf("(forall ((o!q Int)) (! (=> (< o!q %s) (= (select %s o!q) (select %s o!q))) :pattern ((select %s o!q))))", pre.S, nh.S, old.S, nh.S)))
	}
	for _, s := range []Sort{SPtr, SSlice} {
		old := fc.leafHeap(st, s)
		nh := fc.sc.Fresh("hfr", HeapSort(s))
		frame(nh, old)
		fc.wfHeapFact(nh, nn)
		st.heaps[leafHeapName(s)] = nh
	}
	var names []string
	for name := range fc.heapSorts {
		if strings.HasPrefix(name, "MV") {
			names = append(names, name)
		}
	}
	sort.Strings(names)
	for _, name := range names {
		srt := fc.heapSorts[name]
		_, inner := splitArr(srt)
		if !strings.HasPrefix(string(inner), "(Array ") {
			continue
		}
		_, leaf := splitArr(inner)
		if leaf != SPtr && leaf != SSlice {
			continue
		}
		old := fc.heap(st, name, srt)
		nh := fc.sc.Fresh("hfr", srt)
		frame(nh, old)
		fc.wfHeapFact(nh, nn)
		st.heaps[name] = nh
	}
}

func (fc *FnCtx) wfHeapFact(h *Term, bound *Term) {
	if bound == nil {
		return
	}
	if fc.wfDone == nil {
		fc.wfDone = map[string]bool{}
	}
	if fc.wfDone[h.S+"|"+bound.S] {
		return
	}
	fc.wfDone[h.S+"|"+bound.S] = true
	k1, inner := splitArr(h.Sort)
	var k2, leaf Sort
	two := strings.HasPrefix(string(inner), "(Array ")
	if two {
		k2, leaf = splitArr(inner)
	} else {
		leaf = inner
	}
	var obj string
	var read string
	if two {
		read = fmt.Sprintf("(select (select %s a!q) b!q)", h.S)
	} else {
		read = fmt.Sprintf("(select %s a!q)", h.S)
	}
	switch leaf {
	case SPtr:
		obj = "(pobj " + read + ")"
	case SSlice:
		obj = "(sarr " + read + ")"
	default:
		return
	}
	vars := fmt.Sprintf("(a!q %s)", k1)
	if two {
		vars += fmt.Sprintf(" (b!q %s)", k2)
	}
	// only rows of allocated objects are constrained: the rows of objects a callee allocates later (ids >= bound)
	// are described by the callee's postconditions
	guard := "true"
	if two && k1 == SInt && os.Getenv("VERIF_WFGUARD") != "" {
		guard = fmt.Sprintf("(< a!q %s)", bound.S)
	}
	fc.sc.Assert(mk(SBool, fmt.Sprintf("(forall (%s) (! (=> %s (and (<= 0 %s) (< %s %s))) :pattern (%s)))", vars, guard, obj, obj, bound.S, read)))
}

func (fc *FnCtx) setHeap(st *State, name string, t *Term) {
	// name the new version to keep terms small
	st.heaps[name] = fc.sc.Define("H_"+name, t)
}

func leafHeapName(s Sort) string { return string(s) }

func (fc *FnCtx) leafHeap(st *State, s Sort) *Term {
	return fc.heap(st, leafHeapName(s), HeapSort(s))
}

func (fc *FnCtx) zero(s Sort) *Term {
	if z := zeroTerm(s); z != nil {
		return z
	}
	switch s {
	case SStr:
		return fc.sc.StrLit("")
	case SFlt:
		return mk(SFlt, "(int2flt 0)")
	}
	panic("no zero for sort " + string(s))
}

func (fc *FnCtx) zeroVal(t types.Type) Val {
	if s, ok := leafSort(t); ok {
		return scalar(fc.zero(s))
	}
	switch u := t.Underlying().(type) {
	case *types.Struct:
		v := Val{Fs: make([]Val, u.NumFields())}
		for i := range v.Fs {
			v.Fs[i] = fc.zeroVal(u.Field(i).Type())
		}
		if len(v.Fs) == 0 {
			v.Fs = []Val{}
		}
		return v
	case *types.Tuple:
		v := Val{Fs: make([]Val, u.Len())}
		for i := range v.Fs {
			v.Fs[i] = fc.zeroVal(u.At(i).Type())
		}
		return v
	case *types.Array:
		v := Val{Fs: make([]Val, u.Len())}
		for i := range v.Fs {
			v.Fs[i] = fc.zeroVal(u.Elem())
		}
		return v
	}
	unsup("zero value of %s", t)
	return Val{}
}

// flatten returns the leaves of v in layout order.
func flatten(v Val, out []*Term) []*Term {
	if v.T != nil {
		return append(out, v.T)
	}
	for _, f := range v.Fs {
		out = flatten(f, out)
	}
	return out
}

// unflatten rebuilds a Val of type t from leaves.
func (fc *FnCtx) unflatten(t types.Type, leaves []*Term, pos *int) Val {
	if _, ok := leafSort(t); ok {
		v := scalar(leaves[*pos])
		*pos++
		return v
	}
	switch u := t.Underlying().(type) {
	case *types.Struct:
		v := Val{Fs: make([]Val, u.NumFields())}
		for i := range v.Fs {
			v.Fs[i] = fc.unflatten(u.Field(i).Type(), leaves, pos)
		}
		return v
	case *types.Tuple:
		v := Val{Fs: make([]Val, u.Len())}
		for i := range v.Fs {
			v.Fs[i] = fc.unflatten(u.At(i).Type(), leaves, pos)
		}
		return v
	case *types.Array:
		v := Val{Fs: make([]Val, u.Len())}
		for i := range v.Fs {
			v.Fs[i] = fc.unflatten(u.Elem(), leaves, pos)
		}
		return v
	}
	unsup("unflatten %s", t)
	return Val{}
}

// load reads a value of type t at pointer p.
func (fc *FnCtx) load(st *State, p *Term, t types.Type) Val {
	lay := fc.eng.ti.LayoutOf(t)
	obj, slot := PObj(p), PSlot(p)
	leaves := make([]*Term, len(lay.Leaves))
	for i, lf := range lay.Leaves {
		h := fc.leafHeap(st, lf.Sort)
		leaves[i] = HSel(h, obj, Add(slot, IntLit(lf.Off)))
	}
	pos := 0
	return fc.unflatten(t, leaves, &pos)
}

// store writes v (of type t) at pointer p.
func (fc *FnCtx) store(st *State, p *Term, t types.Type, v Val) {
	lay := fc.eng.ti.LayoutOf(t)
	obj, slot := PObj(p), PSlot(p)
	leaves := flatten(v, nil)
	if len(leaves) != len(lay.Leaves) {
		panic(fmt.Sprintf("store: %d leaves for type %s with %d", len(leaves), t, len(lay.Leaves)))
	}
	// group by sort to emit one heap update per sort
	bySort := map[Sort]*Term{}
	var order []Sort
	for i, lf := range lay.Leaves {
		h, ok := bySort[lf.Sort]
		if !ok {
			h = fc.leafHeap(st, lf.Sort)
			order = append(order, lf.Sort)
		}
		bySort[lf.Sort] = HSto(h, obj, Add(slot, IntLit(lf.Off)), leaves[i])
	}
	for _, s := range order {
		fc.setHeap(st, leafHeapName(s), bySort[s])
	}
}

// typeFacts returns facts that hold for any well-typed value v of type t in state st
// (integer ranges, heap well-formedness of references).
func (fc *FnCtx) typeFacts(st *State, v Val, t types.Type) *Term {
	var fs []*Term
	fc.collectTypeFacts(st, v, t, &fs)
	return And(fs...)
}

var maxAlloc = mk(SInt, "281474976710656") // 2^48

func (fc *FnCtx) collectTypeFacts(st *State, v Val, t types.Type, fs *[]*Term) {
	if v.T != nil {
		switch v.T.Sort {
		case SInt:
			if lo, hi, ok := intRange(t, fc.eng.ti.sizes); ok {
				*fs = append(*fs, Le(BigLit(lo), v.T), Le(v.T, BigLit(hi)))
			} else {
				switch t.Underlying().(type) {
				case *types.Map:
					// a map object has exactly one Go type: maps of different types are different objects
					fc.sc.DeclFun("maptype", []Sort{SInt}, SInt)
					tag := IntLit(int64(fc.eng.ti.TagOf(t.Underlying())))
					*fs = append(*fs, Le(IntLit(0), v.T), Lt(v.T, st.next), Implies(Ne(v.T, IntLit(0)), Eq(app(SInt, "maptype", v.T), tag)))
				case *types.Chan, *types.Signature:
					*fs = append(*fs, Le(IntLit(0), v.T), Lt(v.T, st.next))
				}
			}
		case SPtr:
			*fs = append(*fs, Le(IntLit(0), PObj(v.T)), Lt(PObj(v.T), st.next), Implies(Eq(PObj(v.T), IntLit(0)), Eq(PSlot(v.T), IntLit(0))))
			if pt, ok := t.Underlying().(*types.Pointer); ok && fc.eng.ti.Standalone(pt.Elem()) {
				*fs = append(*fs, Implies(Ne(PObj(v.T), IntLit(0)), Eq(PSlot(v.T), IntLit(fc.eng.ti.BaseSlot(pt.Elem())))))
			}
		case SSlice:
			offOK := []*Term{Le(IntLit(0), SOff(v.T))}
			if sl, ok := t.Underlying().(*types.Slice); ok {
				w := fc.eng.ti.LayoutOf(sl.Elem()).Width
				for _, r := range fc.eng.ti.ArrayFieldRanges(sl.Elem()) {
					offOK = append(offOK, And(Le(IntLit(r[0]), SOff(v.T)), Le(Add(SOff(v.T), Mul(SCap(v.T), IntLit(w))), IntLit(r[1]))))
				}
			}
			*fs = append(*fs, Le(IntLit(0), SArr(v.T)), Lt(SArr(v.T), st.next), Or(offOK...),
				Le(IntLit(0), SLen(v.T)), Le(SLen(v.T), SCap(v.T)), Le(SCap(v.T), maxAlloc),
				Le(SOff(v.T), maxAlloc),
				Implies(Eq(SArr(v.T), IntLit(0)), And(Eq(SCap(v.T), IntLit(0)), Eq(SOff(v.T), IntLit(0)))))
		case SIface:
			*fs = append(*fs, Le(IntLit(0), ITag(v.T)), Implies(Eq(ITag(v.T), IntLit(0)), Eq(IPay(v.T), IntLit(0))))
			// static typing: a non-nil value of interface type I has a dynamic type that implements I
			if it, ok := t.Underlying().(*types.Interface); ok && it.NumMethods() > 0 && types.TypeString(t, nil) == "error" {
				*fs = append(*fs, Implies(Ne(ITag(v.T), IntLit(0)), app(SBool, fc.implPred(t), ITag(v.T))))
			}
		}
		return
	}
	switch u := t.Underlying().(type) {
	case *types.Struct:
		for i, f := range v.Fs {
			fc.collectTypeFacts(st, f, u.Field(i).Type(), fs)
		}
	case *types.Tuple:
		for i, f := range v.Fs {
			fc.collectTypeFacts(st, f, u.At(i).Type(), fs)
		}
	case *types.Array:
		for _, f := range v.Fs {
			fc.collectTypeFacts(st, f, u.Elem(), fs)
		}
	}
}

// freshVal creates an unconstrained value of type t.
func (fc *FnCtx) freshVal(prefix string, t types.Type) Val {
	if s, ok := leafSort(t); ok {
		return scalar(fc.sc.Fresh(prefix, s))
	}
	switch u := t.Underlying().(type) {
	case *types.Struct:
		v := Val{Fs: make([]Val, u.NumFields())}
		for i := range v.Fs {
			v.Fs[i] = fc.freshVal(prefix+"."+u.Field(i).Name(), u.Field(i).Type())
		}
		return v
	case *types.Tuple:
		v := Val{Fs: make([]Val, u.Len())}
		for i := range v.Fs {
			v.Fs[i] = fc.freshVal(fmt.Sprintf("%s.%d", prefix, i), u.At(i).Type())
		}
		return v
	case *types.Array:
		v := Val{Fs: make([]Val, u.Len())}
		for i := range v.Fs {
			v.Fs[i] = fc.freshVal(fmt.Sprintf("%s.%d", prefix, i), u.Elem())
		}
		return v
	}
	unsup("fresh value of %s", t)
	return Val{}
}

func iteVal(c *Term, a, b Val) Val {
	if a.T != nil {
		return scalar(Ite(c, a.T, b.T))
	}
	v := Val{Fs: make([]Val, len(a.Fs))}
	for i := range a.Fs {
		v.Fs[i] = iteVal(c, a.Fs[i], b.Fs[i])
	}
	return v
}

func eqVal(a, b Val) *Term {
	if a.T != nil {
		return Eq(a.T, b.T)
	}
	var cs []*Term
	for i := range a.Fs {
		cs = append(cs, eqVal(a.Fs[i], b.Fs[i]))
	}
	return And(cs...)
}

// merge combines states under their conditions (conds[i] is the full condition of coming from i).
func (fc *FnCtx) merge(states []*State, conds []*Term) *State {
	if len(states) == 1 {
		s := states[0].clone()
		s.reach = conds[0]
		return s
	}
	out := &State{heaps: map[string]*Term{}, ghosts: map[string]*Term{}}
	out.gEpoch, out.hEpoch = states[0].gEpoch, states[0].hEpoch
	for _, s := range states[1:] {
		if s.gEpoch != out.gEpoch {
			fc.epochs++
			out.gEpoch = fc.epochs
			break
		}
	}
	for _, s := range states[1:] {
		if s.hEpoch != out.hEpoch {
			fc.epochs++
			out.hEpoch = fc.epochs
			break
		}
	}
	out.reach = fc.sc.Define("reach", Or(conds...))
	names := map[string]bool{}
	for _, s := range states {
		for k := range s.heaps {
			names[k] = true
		}
	}
	if out.hEpoch != states[0].hEpoch {
		// the states disagree on not-yet-materialised heaps: materialise every known heap
		for k := range fc.heapSorts {
			names[k] = true
		}
	}
	var order []string
	for k := range names {
		order = append(order, k)
	}
	sort.Strings(order)
	for _, k := range order {
		srt := fc.heapSorts[k]
		var cur *Term
		for i := len(states) - 1; i >= 0; i-- {
			h := fc.heap(states[i], k, srt)
			if cur == nil {
				cur = h
			} else {
				cur = Ite(conds[i], h, cur)
			}
		}
		out.heaps[k] = fc.sc.Define("H_"+k, cur)
	}
	gn := map[string]bool{}
	for _, s := range states {
		for k := range s.ghosts {
			gn[k] = true
		}
	}
	if out.gEpoch != states[0].gEpoch {
		for k := range fc.ghostSorts {
			gn[k] = true
		}
	}
	order = order[:0]
	for k := range gn {
		order = append(order, k)
	}
	sort.Strings(order)
	for _, k := range order {
		var cur *Term
		ok := true
		for i := len(states) - 1; i >= 0; i-- {
			g, has := states[i].ghosts[k]
			if !has {
				if strings.HasPrefix(k, "seen:") || strings.HasPrefix(k, "seencnt:") {
					ok = false
					break
				}
				srt := fc.ghostSorts[k]
				for _, s2 := range states {
					if g2, h2 := s2.ghosts[k]; h2 {
						srt = g2.Sort
					}
				}
				if srt == "" {
					ok = false
					break
				}
				g = fc.ghost(states[i], k, srt)
			}
			if cur == nil {
				cur = g
			} else {
				cur = Ite(conds[i], g, cur)
			}
		}
		if ok {
			out.ghosts[k] = fc.sc.Define("G_"+k, cur)
		}
	}
	var nx *Term
	for i := len(states) - 1; i >= 0; i-- {
		if nx == nil {
			nx = states[i].next
		} else {
			nx = Ite(conds[i], states[i].next, nx)
		}
	}
	out.next = fc.sc.Define("next", nx)
	return out
}

// oblige records a proof obligation: under st.reach, goal must hold. Afterwards the goal is assumed
// (assert-then-assume) so that one failure does not cascade.
func (fc *FnCtx) oblige(st *State, kind, path string, goal *Term, pos token.Position, desc string) *Obligation {
	if kind == "post" || kind == "inv-entry" || kind == "inv-preserve" || kind == "pre" {
		if parts := splitGoal(goal); len(parts) > 1 {
			var last *Obligation
			for _, p := range parts {
				last = fc.oblige1(st, kind, path, p, pos, desc)
			}
			return last
		}
	}
	return fc.oblige1(st, kind, path, goal, pos, desc)
}

// splitGoal splits (and A B ..) and (=> P (and A B ..)) into separate goals (better diagnostics, smaller queries).
func splitGoal(goal *Term) []*Term {
	if !strings.HasPrefix(goal.S, "(and ") && !strings.HasPrefix(goal.S, "(=> ") {
		return nil
	}
	n := parseSx(goal.S)
	var out []*Term
	var rec func(n *sx, hyps []string)
	rec = func(n *sx, hyps []string) {
		switch n.head() {
		case "and":
			for _, k := range n.kids[1:] {
				rec(k, hyps)
			}
			return
		case "=>":
			if len(n.kids) == 3 {
				rec(n.kids[2], append(append([]string{}, hyps...), n.kids[1].src))
				return
			}
		}
		t := n.src
		if len(hyps) == 1 {
			t = "(=> " + hyps[0] + " " + t + ")"
		} else if len(hyps) > 1 {
			t = "(=> (and " + strings.Join(hyps, " ") + ") " + t + ")"
		}
		out = append(out, mk(SBool, t))
	}
	rec(n, nil)
	return out
}

// obligeUnassumed records an obligation WITHOUT assuming it afterwards (used for reports that must not make the rest
// of the path vacuous, e.g. a stale invariant: goal false, yet the function is still executed and checked)
func (fc *FnCtx) obligeUnassumed(st *State, kind, path string, goal *Term, pos token.Position, desc string) *Obligation {
	key := path + kind
	fc.kindCount[key]++
	name := fmt.Sprintf("%s/%s%s#%d", fc.key, path, kind, fc.kindCount[key])
	neg := And(st.reach, Not(goal))
	o := &Obligation{Name: name, Kind: kind, Func: fc.key, NFacts: len(fc.sc.facts), NegGoal: neg.S, Pos: pos, Desc: desc, Script: fc.sc, Ctx: fc}
	o.QF = !strings.Contains(neg.S, "(forall ") && !strings.Contains(neg.S, "(exists ")
	fc.obls = append(fc.obls, o)
	return o
}

func (fc *FnCtx) oblige1(st *State, kind, path string, goal *Term, pos token.Position, desc string) *Obligation {
	key := path + kind
	fc.kindCount[key]++
	name := fmt.Sprintf("%s/%s%s#%d", fc.key, path, kind, fc.kindCount[key])
	neg := And(st.reach, Not(goal))
	o := &Obligation{Name: name, Kind: kind, Func: fc.key, NFacts: len(fc.sc.facts), NegGoal: neg.S, Pos: pos, Desc: desc, Script: fc.sc, Ctx: fc}
	o.QF = !strings.Contains(neg.S, "(forall ") && !strings.Contains(neg.S, "(exists ")
	if goal.S == "true" || st.reach.S == "false" {
		o.Status = "proved"
		o.Solver = "trivial"
	}
	fc.obls = append(fc.obls, o)
	n0 := len(fc.sc.facts)
	fc.sc.Assert(Implies(st.reach, goal))
	for i := n0; i < len(fc.sc.facts); i++ {
		fc.sc.oblFact[i] = true
	}
	return o
}

// assume adds a fact valid under st.reach.
func (fc *FnCtx) assume(st *State, fact *Term) {
	fc.sc.Assert(Implies(st.reach, fact))
}
