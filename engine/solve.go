package main

import (
	"bytes"
	"context"
	"fmt"
	"os"
	"os/exec"
	"path/filepath"
	"strings"
	"sync"
	"time"
)

type SolverCfg struct {
	TimeoutS   int
	OutDir     string
	Jobs       int
	TwoSolvers bool
	SkipRetry  func(name string) bool
}

type solverRun struct {
	name   string
	result string // unsat | sat | unknown | timeout | error
	out    string
	secs   float64
}

func runSolver(ctx context.Context, name string, file string, timeoutS int) solverRun {
	var cmd *exec.Cmd
	switch name {
	case "z3-new":
		cmd = exec.CommandContext(ctx, "z3-new", fmt.Sprintf("-T:%d", timeoutS), file)
	case "z3":
		cmd = exec.CommandContext(ctx, "z3", fmt.Sprintf("-T:%d", timeoutS), file)
	case "cvc5":
		cmd = exec.CommandContext(ctx, "cvc5", fmt.Sprintf("--tlimit=%d", timeoutS*1000), "--full-saturate-quant", file)
	}
	var buf bytes.Buffer
	cmd.Stdout = &buf
	cmd.Stderr = &buf
	t0 := time.Now()
	_ = cmd.Run()
	secs := time.Since(t0).Seconds()
	out := buf.String()
	first := strings.TrimSpace(strings.SplitN(out, "\n", 2)[0])
	res := "error"
	switch {
	case first == "unsat":
		res = "unsat"
	case first == "sat":
		res = "sat"
	case first == "unknown":
		res = "unknown"
	case strings.Contains(first, "timeout") || ctx.Err() != nil:
		res = "timeout"
	case strings.Contains(out, "interrupted by timeout") || strings.Contains(out, "cvc5 interrupted"):
		res = "timeout"
	}
	return solverRun{name: name, result: res, out: out, secs: secs}
}

// discharge runs the obligation: z3-new first; if it does not answer unsat, the other two are raced.
var (
	failMu    sync.Mutex
	failCount = map[string]int{}
)

func noteFail(fn string) {
	failMu.Lock()
	failCount[fn]++
	failMu.Unlock()
}

func failsOf(fn string) int {
	failMu.Lock()
	defer failMu.Unlock()
	return failCount[fn]
}

func discharge(o *Obligation, cfg SolverCfg) {
	if o.Status != "" {
		return
	}
	defer func() {
		if o.Status != "proved" {
			noteFail(o.Func)
		}
	}()
	// once a function already has several undischarged obligations the rest get a short budget
	// (cascades after a broken step otherwise cost minutes of timeouts)
	if failsOf(o.Func) >= 4 && cfg.TimeoutS > 3 {
		cfg.TimeoutS = 3
	}
	dir := cfg.OutDir
	base := filepath.Join(dir, fileSafe(o.Name))
	if len(base) > 200 {
		base = base[:200]
	}
	smt := o.Script.Render(o.NFacts, o.NegGoal, false, false)
	fz := base + ".smt2"
	os.WriteFile(fz, []byte(smt), 0o644)
	cv := o.Script.Render(o.NFacts, o.NegGoal, false, true)
	fc := base + ".cvc5.smt2"
	var runs []solverRun
	t0 := time.Now()
	quick := cfg.TimeoutS
	if quick > 4 {
		quick = 4
	}
	r := runSolver(context.Background(), "z3-new", fz, quick)
	runs = append(runs, r)
	fx := base + ".cex.smt2"
	if r.result != "unsat" && r.result != "sat" {
		os.WriteFile(fc, []byte(cv), 0o644)
		os.WriteFile(fx, []byte(o.Script.RenderMode(o.NFacts, o.NegGoal, true, false, true)), 0o644)
		ctx, cancel := context.WithCancel(context.Background())
		ch := make(chan solverRun, 4)
		names := []string{"z3", "cvc5", "z3-new[cex-mode]"}
		if cfg.TimeoutS > quick {
			names = append(names, "z3-new")
		}
		for _, n := range names {
			go func(n string) {
				switch n {
				case "cvc5":
					ch <- runSolver(ctx, n, fc, cfg.TimeoutS)
				case "z3-new[cex-mode]":
					rr := runSolver(ctx, "z3-new", fx, cfg.TimeoutS)
					rr.name = n
					if rr.result == "unsat" {
						rr.result = "unsat-in-cex-mode" // not a proof: the prelude axioms differ
					}
					ch <- rr
				default:
					ch <- runSolver(ctx, n, fz, cfg.TimeoutS)
				}
			}(n)
		}
		for range names {
			rr := <-ch
			runs = append(runs, rr)
			// a sat answer in cex mode (weaker axioms) is only a candidate: keep waiting for a proof
			if rr.result == "unsat" || (rr.result == "sat" && rr.name != "z3-new[cex-mode]") {
				cancel()
				break
			}
		}
		cancel()
	}
	o.TimeS = time.Since(t0).Seconds()
	var sb strings.Builder
	decided := ""
	for _, x := range runs {
		fmt.Fprintf(&sb, "%s: %s (%.2fs)\n", x.name, x.result, x.secs)
		if x.result == "unsat" && decided == "" {
			decided = x.name
		}
	}
	o.Output = sb.String()
	if decided != "" {
		o.Status = "proved"
		o.Solver = decided
		if !cfg.TwoSolvers {
			os.Remove(fz)
			os.Remove(fc)
			os.Remove(fx)
		}
		return
	}
	for _, x := range runs {
		if x.result == "sat" {
			o.Status = "failed"
			o.Solver = x.name
			if x.name == "z3-new[cex-mode]" {
				o.Model = x.out
				return
			}
			// fetch a model
			m := o.Script.Render(o.NFacts, o.NegGoal, true, x.name == "cvc5")
			fm := base + ".model.smt2"
			os.WriteFile(fm, []byte(m), 0o644)
			mr := runSolver(context.Background(), x.name, fm, cfg.TimeoutS)
			o.Model = mr.out
			return
		}
	}
	o.Status = "unknown"
}

// checkCover: the negated goal of a cover obligation is the reach condition itself; it must be satisfiable
// (sat or unknown are accepted; unsat means the assumptions are contradictory).
func checkCover(o *Obligation, cfg SolverCfg) {
	base := filepath.Join(cfg.OutDir, fileSafe(o.Name))
	smt := o.Script.RenderCover(o.NFacts, o.NegGoal)
	fz := base + ".smt2"
	os.WriteFile(fz, []byte(smt), 0o644)
	t := cfg.TimeoutS
	if t > 3 {
		t = 3
	}
	r := runSolver(context.Background(), "z3-new", fz, t)
	o.TimeS = r.secs
	o.Output = fmt.Sprintf("z3-new: %s (%.2fs)\n", r.result, r.secs)
	o.Solver = "z3-new"
	if r.result == "unsat" {
		if o.PreGoal != "" {
			// call cover: only a contradiction INTRODUCED by the callee's contract counts (an unreachable call
			// site is not the contract's fault)
			fp := base + ".pre.smt2"
			os.WriteFile(fp, []byte(o.Script.RenderCover(o.PreNFacts, o.PreGoal)), 0o644)
			rp := runSolver(context.Background(), "z3-new", fp, t)
			o.Output += fmt.Sprintf("before the call: z3-new: %s (%.2fs)\n", rp.result, rp.secs)
			os.Remove(fp)
			if rp.result == "unsat" {
				o.Status = "proved"
				os.Remove(fz)
				return
			}
		}
		o.Status = "failed"
		return
	}
	o.Status = "proved"
	os.Remove(fz)
}

func dischargeAll(obls []*Obligation, covers []*Obligation, cfg SolverCfg) {
	os.MkdirAll(cfg.OutDir, 0o755)
	jobs := cfg.Jobs
	if jobs <= 0 {
		jobs = 8
	}
	var wg sync.WaitGroup
	ch := make(chan func(), len(obls)+len(covers))
	for _, o := range obls {
		o := o
		ch <- func() { discharge(o, cfg) }
	}
	for _, o := range covers {
		o := o
		ch <- func() { checkCover(o, cfg) }
	}
	close(ch)
	for i := 0; i < jobs; i++ {
		wg.Add(1)
		go func() {
			defer wg.Done()
			for f := range ch {
				f()
			}
		}()
	}
	wg.Wait()
	// second chance for obligations that only timed out (no solver said sat): load on the machine must not
	// turn into alarms. Re-run them with three times the budget and little parallelism.
	var again []*Obligation
	for _, o := range obls {
		if o.Status == "unknown" || (o.Status == "failed" && o.Solver == "z3-new[cex-mode]") {
			if cfg.SkipRetry != nil && cfg.SkipRetry(o.Name) {
				continue
			}
			again = append(again, o)
		}
	}
	// VERIF_NO_RETRY: the self-test's must-fail runs do not need the second chance (any undischarged obligation
	// already counts as "caught"); it is never set for the registered checks
	if len(again) > 0 && len(again) <= 60 && os.Getenv("VERIF_NO_RETRY") == "" {
		failMu.Lock()
		failCount = map[string]int{}
		failMu.Unlock()
		cfg2 := cfg
		cfg2.TimeoutS = cfg.TimeoutS * 3
		ch2 := make(chan *Obligation, len(again))
		for _, o := range again {
			ch2 <- o
		}
		close(ch2)
		var wg2 sync.WaitGroup
		for i := 0; i < 4; i++ {
			wg2.Add(1)
			go func() {
				defer wg2.Done()
				for o := range ch2 {
					prev := o.Output
					o.Status, o.Solver, o.Model = "", "", ""
					discharge(o, cfg2)
					o.Output = prev + "-- retry with 3x budget --\n" + o.Output
				}
			}()
		}
		wg2.Wait()
	}
}

// quickSat asks z3 whether cond is satisfiable together with the facts so far (used to stop unrolling).
// Anything but a definite unsat counts as "maybe".
func (fc *FnCtx) quickSat(cond *Term) bool {
	if cond.S == "false" {
		return false
	}
	dir := filepath.Join(os.TempDir(), "govc-quick")
	os.MkdirAll(dir, 0o755)
	f, err := os.CreateTemp(dir, "q*.smt2")
	if err != nil {
		return true
	}
	name := f.Name()
	f.WriteString(fc.sc.Render(len(fc.sc.facts), cond.S, false, false))
	f.Close()
	defer os.Remove(name)
	r := runSolver(context.Background(), "z3-new", name, 2)
	return r.result != "unsat"
}
