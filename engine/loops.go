package main

import (
	"fmt"
	"strings"
	"go/constant"
	"go/token"
	"go/types"

	"golang.org/x/tools/go/ssa"
)

// writeConstraint restricts what may be written (function frame or loop frame).
type writeConstraint struct {
	what   string // "frame" | "loop-frame"
	items  []locItem
	nextAt *Term // objects >= nextAt are fresh and may always be written
	loop   *Loop
}

func (fr *Frame) activeConstraints(blk *ssa.BasicBlock) []*writeConstraint {
	var out []*writeConstraint
	for f := fr; f != nil; f = f.parent {
		out = append(out, f.inheritedWC...)
		break
	}
	if fr.funcWC != nil {
		out = append(out, fr.funcWC)
	}
	for _, l := range fr.loops {
		if l.wc != nil && l.blocks[blk] {
			out = append(out, l.wc)
		}
	}
	return out
}

// checkWrite obliges that the written item is permitted by every active frame.
func (fr *Frame) checkWrite(st *State, in ssa.Instruction, it locItem, what string) {
	for _, wc := range fr.activeConstraints(in.Block()) {
		fr.checkWriteAgainst(st, in, it, what, wc)
	}
}

func (fr *Frame) checkWriteAgainst(st *State, in ssa.Instruction, it locItem, what string, wc *writeConstraint) {
	var alts []*Term
	if it.kind == "ghost" && wc.what == "loop-frame" {
		return // ghost effects are checked against the function frame only (loops havoc ghosts wholesale)
	}
	if it.obj != nil && it.kind != "maptype" {
		alts = append(alts, Ge(it.obj, wc.nextAt))
	}
	for _, a := range wc.items {
		alts = append(alts, covers(a, it))
	}
	goal := Or(alts...)
	if goal.S == "true" {
		return
	}
	fr.fc.oblige(st, wc.what, fr.path, goal, fr.pos(in), what+" stays inside the declared modifies set")
}

// ---------------------------------------------------------------------------------------------
// loop head: check invariant on entry, havoc, assume invariant
// ---------------------------------------------------------------------------------------------

func (fr *Frame) loopInvariants(l *Loop) []*Clause {
	if l.spec == nil {
		return nil
	}
	return l.spec.ClausesOf("invariant")
}

func (fr *Frame) loopName(l *Loop) string {
	return fmt.Sprintf("loop#%d:", l.ordinal)
}

func (fr *Frame) evalLoopInv(l *Loop, c *Clause, st *State) (res *Term) {
	ev := fr.evalCtx(st, fr.entry)
	ev.at = l.header
	ev.loopEntry = l.preState
	// A loop invariant that names something the current code no longer has (a renamed or removed local) is STALE: it is
	// reported once as a failed obligation of its own and otherwise contributes nothing (it is neither assumed nor
	// does it stop the function from being executed), so that the function's other obligations - frame, call-site,
	// post - are still generated and say what, if anything, is semantically wrong.
	defer func() {
		if r := recover(); r != nil {
			if ee, ok := r.(evalErr); ok && strings.HasPrefix(ee.msg, "unknown identifier") {
				key := fmt.Sprintf("%s:%d", c.File, c.Line)
				if fr.fc.staleInv == nil {
					fr.fc.staleInv = map[string]bool{}
				}
				if !fr.fc.staleInv[key] {
					fr.fc.staleInv[key] = true
					fr.fc.obligeUnassumed(st, "inv-stale", fr.path, TFalse, fr.fc.eng.fset.Position(l.header.Instrs[0].Pos()), fmt.Sprintf("loop invariant does not evaluate against the current code (%s): %s", ee.msg, c.Text))
				}
				res = TTrue
				return
			}
			panic(r)
		}
	}()
	return ev.evalBool(c.Expr)
}

func (fr *Frame) safeEvalBool(ev *EvalCtx, c *Clause) (res *Term) {
	defer func() {
		if r := recover(); r != nil {
			if ee, ok := r.(evalErr); ok {
				panic(unsupported{fmt.Sprintf("%s:%d: %s (in %q)", c.File, c.Line, ee.msg, c.Text)})
			}
			panic(r)
		}
	}()
	return ev.evalBool(c.Expr)
}

func (fr *Frame) safeEvalInt(ev *EvalCtx, c *Clause) (res *Term) {
	defer func() {
		if r := recover(); r != nil {
			if ee, ok := r.(evalErr); ok {
				panic(unsupported{fmt.Sprintf("%s:%d: %s (in %q)", c.File, c.Line, ee.msg, c.Text)})
			}
			panic(r)
		}
	}()
	return ev.evalInt(c.Expr)
}

func (fr *Frame) safeEvalLocs(ev *EvalCtx, c *Clause) (res []locItem) {
	defer func() {
		if r := recover(); r != nil {
			if ee, ok := r.(evalErr); ok {
				panic(unsupported{fmt.Sprintf("%s:%d: %s (in %q)", c.File, c.Line, ee.msg, c.Text)})
			}
			panic(r)
		}
	}()
	return ev.evalLocs(c.Locs)
}

// autoInvariants: for a phi stepped by a positive constant, phi >= init (and for negative, <=).
func (fr *Frame) autoInvariants(l *Loop, phiVal func(*ssa.Phi) Val, initVal func(*ssa.Phi) (Val, bool)) []*Term {
	var out []*Term
	for _, in := range l.header.Instrs {
		phi, ok := in.(*ssa.Phi)
		if !ok {
			if _, isDbg := in.(*ssa.DebugRef); isDbg {
				continue
			}
			break
		}
		if s, _ := leafSort(phi.Type()); s != SInt {
			continue
		}
		if _, isBasic := phi.Type().Underlying().(*types.Basic); !isBasic {
			continue
		}
		step := int64(0)
		okAll := true
		var init ssa.Value
		for i, p := range l.header.Preds {
			e := phi.Edges[i]
			if l.header.Dominates(p) { // back edge
				bo, ok := e.(*ssa.BinOp)
				if !ok || bo.X != ssa.Value(phi) {
					okAll = false
					break
				}
				c, ok := bo.Y.(*ssa.Const)
				if !ok || c.Value == nil || c.Value.Kind() != constant.Int {
					okAll = false
					break
				}
				v, _ := constant.Int64Val(c.Value)
				if bo.Op == token.SUB {
					v = -v
				} else if bo.Op != token.ADD {
					okAll = false
					break
				}
				if step != 0 && (step > 0) != (v > 0) {
					okAll = false
					break
				}
				step = v
			} else {
				if init != nil && init != e {
					okAll = false
					break
				}
				init = e
			}
		}
		if !okAll || step == 0 || init == nil {
			continue
		}
		iv, ok := initVal(phi)
		if !ok {
			continue
		}
		if step > 0 {
			out = append(out, Ge(phiVal(phi).T, iv.T))
		} else {
			out = append(out, Le(phiVal(phi).T, iv.T))
		}
	}
	return out
}

func (fr *Frame) loopHead(l *Loop, st *State) {
	fc := fr.fc
	lname := fr.loopName(l)
	pos := fc.eng.fset.Position(l.minPos)
	l.preState = st.clone()
	// 1. invariants hold on entry (phis currently hold the entry values)
	for _, c := range fr.loopInvariants(l) {
		fc.oblige(st, "inv-entry", fr.path+lname, fr.evalLoopInv(l, c, st), pos, "loop invariant holds on entry: "+c.Text)
	}
	entryPhi := map[*ssa.Phi]Val{}
	for _, in := range l.header.Instrs {
		if phi, ok := in.(*ssa.Phi); ok {
			if v, ok := fr.env[phi]; ok {
				entryPhi[phi] = v
			}
		}
	}
	l.preState = st.clone()
	// 2. modifies set, evaluated in the pre-loop state
	var items []locItem
	explicit := false
	if l.spec != nil {
		for _, c := range l.spec.ClausesOf("modifies") {
			explicit = true
			ev := fr.evalCtx(st, fr.entry)
			ev.at = l.header
			items = append(items, fr.safeEvalLocs(ev, c)...)
		}
	}
	if !explicit {
		items = fr.inferLoopMods(l, st)
	}
	l.wc = &writeConstraint{what: "loop-frame", items: items, nextAt: st.next, loop: l}
	// 3. havoc
	nn := fc.sc.Fresh("next", SInt)
	fc.sc.Assert(Ge(nn, st.next))
	fc.hvBound = nn
	fc.havocItems(st, items)
	fc.hvBound = nil
	st.next = nn
	hasCall, hasSync := false, false
	for b := range l.blocks {
		for _, in := range b.Instrs {
			switch x := in.(type) {
			case *ssa.Next:
				if !x.IsString {
					key := rangeKey(x.Iter.(*ssa.Range))
					if g, ok := st.ghosts[key]; ok {
						st.ghosts[key] = fc.sc.Fresh("seen", g.Sort)
					}
					if _, ok := st.ghosts["seencnt:"+key]; ok {
						st.ghosts["seencnt:"+key] = fc.sc.Fresh("seencnt", SInt)
					}
				}
			case *ssa.Call:
				if b, isBuiltin := x.Call.Value.(*ssa.Builtin); isBuiltin && b.Name() != "close" {
					continue // append, len, delete, ...: no ghost effects (close(chan) counts in chclosed)
				}
				hasCall = true
				if f := x.Call.StaticCallee(); f != nil && (strings.HasPrefix(f.String(), "(*sync.Mutex).") || strings.HasPrefix(f.String(), "(*sync.RWMutex).")) {
					hasSync = true
				}
			case *ssa.Go, *ssa.Defer:
				hasCall = true
			}
		}
	}
	l.pinHeld, l.pinRHeld = nil, nil
	if hasCall && !hasSync {
		// the lock sets are untouched by a loop without lock operations: pin their current values
		// (checked at every back edge: one iteration leaves the lock sets as it found them)
		st.ghosts["held"] = fc.heldSet(st)
		st.ghosts["rheld"] = fc.rheldSet(st)
		l.pinHeld, l.pinRHeld = st.ghosts["held"], st.ghosts["rheld"]
	}
	if hasCall {
		// ghosts that are not materialised yet get fresh values too (new epoch)
		fc.epochs++
		st.gEpoch = fc.epochs
		for k, g := range st.ghosts {
			if strings.HasPrefix(k, "seen:") || strings.HasPrefix(k, "seencnt:") {
				continue
			}
			if (k == "held" || k == "rheld" || k == "relsd") && !hasSync {
				continue
			}
			st.ghosts[k] = fc.sc.Fresh("g_"+k, g.Sort)
		}
	}
	for _, in := range l.header.Instrs {
		phi, ok := in.(*ssa.Phi)
		if !ok {
			if _, isDbg := in.(*ssa.DebugRef); isDbg {
				continue
			}
			break
		}
		if _, had := entryPhi[phi]; !had {
			continue
		}
		v := fc.freshVal(phiName(phi), phi.Type())
		fr.env[phi] = v
		fc.assume(st, fc.typeFacts(st, v, phi.Type()))
	}
	// 4. assume invariants
	for _, c := range fr.loopInvariants(l) {
		fc.assume(st, fr.evalLoopInv(l, c, st))
	}
	for _, a := range fr.autoInvariants(l, func(p *ssa.Phi) Val { return fr.env[p] }, func(p *ssa.Phi) (Val, bool) { v, ok := entryPhi[p]; return v, ok }) {
		fc.assume(st, a)
	}
	l.entryPhi = entryPhi
	// vacuity guard: the loop head must be reachable under the assumed invariants
	if l.spec != nil && len(fr.loopInvariants(l)) > 0 && len(fr.unrolling) == 0 {
		fc.kindCount[fr.path+lname+"cover"]++
		fc.covers = append(fc.covers, &Obligation{Name: fmt.Sprintf("%s/%s%scover#head%d", fc.key, fr.path, lname, fc.kindCount[fr.path+lname+"cover"]), Kind: "cover", Func: fc.key,
			NFacts: len(fc.sc.facts), NegGoal: st.reach.S, Script: fc.sc, Pos: pos, Desc: "loop head reachable under the assumed invariants (invariants not contradictory)"})
	}
	// 5. variant
	l.decr0 = nil
	if l.spec != nil {
		for _, c := range l.spec.ClausesOf("decreases") {
			ev := fr.evalCtx(st, fr.entry)
			ev.at = l.header
			l.decr0 = append(l.decr0, fc.sc.Define("variant", fr.safeEvalInt(ev, c)))
		}
		l.incr0 = nil
		for _, c := range l.spec.ClausesOf("increases") {
			ev := fr.evalCtx(st, fr.entry)
			ev.at = l.header
			l.incr0 = append(l.incr0, fc.sc.Define("progress", fr.safeEvalInt(ev, c)))
		}
	}
}

// loopBack: at a back edge, the invariant must be re-established and the variant must decrease.
func (fr *Frame) loopBack(l *Loop, from *ssa.BasicBlock, cond *Term, st *State) {
	fc := fr.fc
	lname := fr.loopName(l)
	pos := fc.eng.fset.Position(l.minPos)
	bst := st.clone()
	bst.reach = cond
	idx := -1
	for i, p := range l.header.Preds {
		if p == from {
			idx = i
		}
	}
	ov := map[*ssa.Phi]Val{}
	for _, in := range l.header.Instrs {
		if phi, ok := in.(*ssa.Phi); ok {
			if _, had := l.entryPhi[phi]; had {
				ov[phi] = fr.val(phi.Edges[idx])
			}
		}
	}
	saved := fr.phiOv
	fr.phiOv = ov
	defer func() { fr.phiOv = saved }()
	for _, c := range fr.loopInvariants(l) {
		fc.oblige(bst, "inv-preserve", fr.path+lname, fr.evalLoopInv(l, c, bst), pos, "loop invariant preserved: "+c.Text)
	}
	if l.pinHeld != nil {
		if h, ok := bst.ghosts["held"]; ok && h.S != l.pinHeld.S {
			fc.oblige(bst, "lock", fr.path+lname, Eq(h, l.pinHeld), pos, "one loop iteration leaves the set of held locks as it found it")
		}
		if h, ok := bst.ghosts["rheld"]; ok && h.S != l.pinRHeld.S {
			fc.oblige(bst, "lock", fr.path+lname, Eq(h, l.pinRHeld), pos, "one loop iteration leaves the set of read-held locks as it found it")
		}
	}
	for _, a := range fr.autoInvariants(l, func(p *ssa.Phi) Val { return ov[p] }, func(p *ssa.Phi) (Val, bool) { v, ok := l.entryPhi[p]; return v, ok }) {
		fc.oblige(bst, "inv-auto", fr.path+lname, a, pos, "automatic bound invariant preserved")
	}
	if l.spec != nil {
		for i, c := range l.spec.ClausesOf("decreases") {
			ev := fr.evalCtx(bst, fr.entry)
			ev.at = l.header
			d := fr.safeEvalInt(ev, c)
			fc.oblige(bst, "decreases", fr.path+lname, And(Le(IntLit(0), l.decr0[i]), Lt(d, l.decr0[i])), pos, "loop variant decreases: "+c.Text)
		}
		// progress measure: every trip round the loop strictly increases the expression (no idle spinning)
		for i, c := range l.spec.ClausesOf("increases") {
			ev := fr.evalCtx(bst, fr.entry)
			ev.at = l.header
			d := fr.safeEvalInt(ev, c)
			fc.oblige(bst, "increases", fr.path+lname, Gt(d, l.incr0[i]), pos, "every iteration makes progress: "+c.Text+" strictly increases")
		}
	}
}

// ---------------------------------------------------------------------------------------------
// inference of a loop's modifies set from its stores (bases evaluated in the pre-loop state);
// soundness does not rest on the guess: every write in the body is checked against it.
// ---------------------------------------------------------------------------------------------

type preVal struct {
	v     Val
	dep   bool // depends on loop-carried state
	fresh bool // object allocated inside the loop
	ok    bool
}

func (fr *Frame) preEval(l *Loop, v ssa.Value, st *State, depth int) preVal {
	if depth > 12 {
		return preVal{}
	}
	fc := fr.fc
	ti := fc.eng.ti
	in, isInstr := v.(ssa.Instruction)
	if !isInstr || !l.blocks[in.Block()] {
		if x, ok := fr.env[v]; ok {
			return preVal{v: x, ok: true}
		}
		switch v.(type) {
		case *ssa.Const, *ssa.Global, *ssa.FreeVar, *ssa.Function:
			return preVal{v: fr.val(v), ok: true}
		}
		return preVal{}
	}
	switch x := v.(type) {
	case *ssa.Phi:
		if x.Block() == l.header {
			if ev, ok := l.entryPhiTmp[x]; ok {
				return preVal{v: ev, dep: true, ok: true}
			}
		}
		return preVal{dep: true}
	case *ssa.Alloc, *ssa.MakeSlice, *ssa.MakeMap, *ssa.MakeClosure, *ssa.MakeChan:
		return preVal{fresh: true, ok: true}
	case *ssa.FieldAddr:
		b := fr.preEval(l, x.X, st, depth+1)
		if !b.ok || b.fresh {
			return b
		}
		stt := x.X.Type().Underlying().(*types.Pointer).Elem().Underlying().(*types.Struct)
		off := ti.FieldOffset(stt, x.Field)
		p := b.v.T
		return preVal{v: scalar(MkPtr(PObj(p), Add(PSlot(p), IntLit(off)))), dep: b.dep, ok: true}
	case *ssa.IndexAddr:
		b := fr.preEval(l, x.X, st, depth+1)
		if !b.ok || b.fresh {
			return b
		}
		switch xt := x.X.Type().Underlying().(type) {
		case *types.Slice:
			_ = xt
			s := b.v.T
			return preVal{v: scalar(MkPtr(SArr(s), IntLit(0))), dep: true, ok: !b.dep}
		case *types.Pointer:
			return preVal{v: scalar(MkPtr(PObj(b.v.T), IntLit(0))), dep: true, ok: !b.dep}
		}
		return preVal{}
	case *ssa.UnOp:
		if x.Op != token.MUL {
			return preVal{dep: true}
		}
		a := fr.preEval(l, x.X, st, depth+1)
		if !a.ok || a.dep {
			return preVal{dep: true}
		}
		if a.fresh {
			return preVal{dep: true}
		}
		return preVal{v: fc.load(st, a.v.T, x.Type()), ok: true}
	case *ssa.Field:
		a := fr.preEval(l, x.X, st, depth+1)
		if !a.ok || a.fresh || a.v.T != nil {
			return preVal{dep: true}
		}
		return preVal{v: a.v.Fs[x.Field], dep: a.dep, ok: true}
	case *ssa.Slice:
		a := fr.preEval(l, x.X, st, depth+1)
		if !a.ok || a.fresh {
			return a
		}
		if _, isSl := x.X.Type().Underlying().(*types.Slice); isSl {
			return preVal{v: a.v, dep: a.dep, ok: true} // same backing array
		}
		return preVal{}
	case *ssa.ChangeType:
		return fr.preEval(l, x.X, st, depth+1)
	}
	return preVal{dep: true}
}

func (fr *Frame) inferLoopMods(l *Loop, st *State) []locItem {
	fc := fr.fc
	ti := fc.eng.ti
	l.entryPhiTmp = map[*ssa.Phi]Val{}
	for _, in := range l.header.Instrs {
		if phi, ok := in.(*ssa.Phi); ok {
			if v, ok := fr.env[phi]; ok {
				l.entryPhiTmp[phi] = v
			}
		}
	}
	var items []locItem
	need := func(in ssa.Instruction, why string) {
		unsup("%s: loop #%d of %s needs an explicit `modifies` clause (%s)", fr.pos(in), l.ordinal, fr.fn, why)
	}
	for b := range l.blocks {
		for _, in := range b.Instrs {
			switch x := in.(type) {
			case *ssa.Store:
				t := x.Addr.Type().Underlying().(*types.Pointer).Elem()
				a := fr.preEval(l, x.Addr, st, 0)
				if a.ok && a.fresh {
					continue
				}
				if !a.ok {
					need(in, "store through a loop-dependent pointer")
				}
				lay := ti.LayoutOf(t)
				if a.dep {
					items = append(items, locItem{kind: "row", obj: PObj(a.v.T), leaves: lay.Leaves})
				} else {
					items = append(items, locItem{kind: "loc", obj: PObj(a.v.T), slot: PSlot(a.v.T), width: lay.Width, leaves: lay.Leaves})
				}
			case *ssa.MapUpdate:
				a := fr.preEval(l, x.Map, st, 0)
				if a.ok && a.fresh {
					continue
				}
				if !a.ok || a.dep {
					need(in, "update of a loop-dependent map")
				}
				items = append(items, locItem{kind: "map", obj: a.v.T, mapT: x.Map.Type().Underlying().(*types.Map)})
			case *ssa.Call:
				if !fr.callIsPure(&x.Call) {
					need(in, "call to "+callName(&x.Call)+" may write memory")
				}
			case *ssa.Go, *ssa.Defer, *ssa.Send:
				// no heap effect on the spawner
			}
		}
	}
	return items
}

func callName(c *ssa.CallCommon) string {
	if f := c.StaticCallee(); f != nil {
		return f.String()
	}
	if c.IsInvoke() {
		return c.Method.FullName()
	}
	return c.Value.Name()
}

// callIsPure: callee known not to write pre-existing memory.
func (fr *Frame) callIsPure(c *ssa.CallCommon) bool {
	if b, ok := c.Value.(*ssa.Builtin); ok {
		switch b.Name() {
		case "len", "cap", "min", "max", "append", "print", "println", "recover", "panic":
			return true
		}
		return false
	}
	if f := c.StaticCallee(); f != nil {
		key := funcKey(f)
		if sp := fr.fc.eng.db.Funcs[key]; sp != nil {
			for _, m := range sp.ClausesOf("modifies") {
				if len(m.Locs) > 0 {
					return false
				}
			}
			return true
		}
		if fr.fc.eng.isOpaquePure(f) {
			return true
		}
		if fr.fc.eng.builtinModel(f) != "" {
			return fr.fc.eng.builtinModelPure(f)
		}
		return false
	}
	if c.IsInvoke() {
		key := ifaceMethodKey(c)
		if sp := fr.fc.eng.db.Funcs[key]; sp != nil {
			for _, m := range sp.ClausesOf("modifies") {
				if len(m.Locs) > 0 {
					return false
				}
			}
			return true
		}
	}
	return false
}
