#!/bin/bash
# usage: make_mutant.sh <property> <name> <file> <sed-expr> : creates mutants/<property>/<name>.patch from a sed edit of /repo/<file>
P=$1; N=$2; F=$3; E=$4
mkdir -p /verif/selftest/mutants/$P
cd /repo && cp $F /tmp/mm.bak && sed -i "$E" $F && git diff -- $F > /verif/selftest/mutants/$P/$N.patch; cp /tmp/mm.bak $F
if [ ! -s /verif/selftest/mutants/$P/$N.patch ]; then echo "EMPTY mutant $P/$N"; rm /verif/selftest/mutants/$P/$N.patch; fi
