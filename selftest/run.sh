#!/bin/bash
# must-fail / must-pass self-test: every patch under selftest/mutants/<id>/ must make ./check <id> report a
# VIOLATION; every patch under selftest/equivalents/<id>/ must NOT. Each runs on a scratch copy outside /repo and /verif.
# usage: selftest/run.sh [id ...]
cd /verif && . ./env.sh
IDS="$@"; [ -z "$IDS" ] && IDS=$(ls selftest/mutants selftest/equivalents 2>/dev/null | grep '^C' | sort -u)
TMPROOT=$(mktemp -d ${TMPDIR:-/tmp}/verif-scratch.XXXXXX)
trap 'rm -rf $TMPROOT' EXIT
fail=0
# one snapshot of the repository for the whole run (the live tree may be edited meanwhile)
mkdir -p $TMPROOT/base
(cd /repo && git ls-files -z --cached --others --exclude-standard | xargs -0 cp --parents -t $TMPROOT/base) 2>/dev/null
run_one() { # kind id patch
  kind=$1; id=$2; patch=$3; name=$(basename $patch .patch)
  d=$TMPROOT/$id-$name; mkdir -p $d/repo $d/out $d/ev
  cp -a $TMPROOT/base/. $d/repo/
  (cd $d/repo && patch -p1 -s < $patch) || { echo "SELFTEST-ERROR $id/$name: patch does not apply"; return 1; }
  nr=""; [ $kind = mutant ] && nr=1   # must-fail runs skip the retry pass (any undischarged obligation counts)
  out=$(VERIF_NO_RETRY=$nr VERIF_REPO=$d/repo VERIF_OUT=$d/out VERIF_EVIDENCE_DIR=$d/ev engine/bin/govc check $id quick 2>&1)
  nviol=$(echo "$out" | grep -c '^VIOLATION')
  # must-fail runs skip the retry pass, so an obligation that merely times out under the self-test's parallel load shows
  # up as a violation: obligations known to do that (selftest/noise.txt, one regex per line) do not count as a catch
  if [ $kind = mutant ] && [ -s /verif/selftest/noise.txt ]; then nviol=$(echo "$out" | grep '^VIOLATION' | grep -v -E -f /verif/selftest/noise.txt | grep -c .); fi
  nrepro=$(echo "$out" | grep '^VIOLATION' | grep -v 'bounded:' | grep -vc 'no-failing-input-found$')
  rm -rf $d
  # <name>.reproduces beside a must-fail patch: the solver's model must also replay on the real code
  if [ $kind = mutant ] && [ -f ${patch%.patch}.reproduces ] && [ $nrepro -eq 0 ]; then echo "MISS must-reproduce $id/$name: no violation was replayed on the real code"; return 1; fi
  if [ $kind = mutant ]; then
    if [ $nviol -gt 0 ]; then echo "ok   must-fail $id/$name ($nviol violations: $(echo "$out" | grep '^VIOLATION' | grep -v -E -f /verif/selftest/noise.txt | head -1 | sed 's/.*obligation=//' | cut -c1-90))"; else echo "MISS must-fail $id/$name: no violation reported"; return 1; fi
  else
    if [ $nviol -eq 0 ]; then echo "ok   must-pass $id/$name"; else echo "FALSE-ALARM must-pass $id/$name: $(echo "$out" | grep '^VIOLATION' | head -2)"; return 1; fi
  fi
}
export -f run_one; export TMPROOT
jobs=()
for id in $IDS; do
  for p in selftest/mutants/$id/*.patch; do [ -f "$p" ] && jobs+=("mutant $id /verif/$p"); done
  for p in selftest/equivalents/$id/*.patch; do [ -f "$p" ] && jobs+=("equiv $id /verif/$p"); done
done
printf '%s\n' "${jobs[@]}" | xargs -P 2 -I{} bash -c 'run_one {}' | tee $TMPROOT/log
grep -cE "^(MISS|FALSE-ALARM|SELFTEST-ERROR)" $TMPROOT/log > $TMPROOT/nbad
echo "selftest: $(grep -c '^ok' $TMPROOT/log) ok, $(cat $TMPROOT/nbad) bad"
[ "$(cat $TMPROOT/nbad)" = "0" ]
