#!/bin/bash
# runs every claimed check on the current tree (quick tier) - used before committing evidence
cd /verif
for id in $(python3 -c "import json;print(' '.join(c['property_id'] for c in json.load(open('MANIFEST.json'))['checks']))"); do
  ./check $id ${1:-quick} | grep -E "^VIOLATION|^C[0-9]+ \[" | cut -c1-250
done
