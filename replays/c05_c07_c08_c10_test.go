package actor

// Replays for obligations that failed before their fixes:
//   C05 handleRestart/post#4 (0af3f51)      - a restarted actor receives its own OnLaunch
//   C08 applyDecision/post#11 (84ccb54)     - an unexpected decision value is escalated, not ignored
//   C10 (*Ref).Equals/.../pre#1 (366777c)   - Equals against a nil *Ref inside an ActorRef (the root's parent)
//   C07 Start$2/call:stop/pre#1 (33676ba)   - the guardian goroutine does not dead-lock on statusLock
// Injected with `go test -overlay` (replays/run.sh); not part of the repository.

import (
	"context"
	"sync"
	"sync/atomic"
	"testing"
	"time"

	"github.com/kercylan98/vivid"
	"github.com/kercylan98/vivid/pkg/log"
)

func replaySys(t *testing.T, opts ...vivid.ActorSystemOption) *System {
	opts = append([]vivid.ActorSystemOption{vivid.WithActorSystemLogger(log.NewTextLogger(log.WithLevel(log.LevelError + 4)))}, opts...)
	s := NewSystem(opts...)
	if err := s.Start(); err != nil {
		t.Fatal(err)
	}
	return s
}

func TestReplayC05RestartedActorGetsItsOnLaunch(t *testing.T) {
	s := replaySys(t)
	defer s.Stop()
	var mu sync.Mutex
	var parentLaunch, childLaunch int
	var failOnce atomic.Bool
	s.ActorOf(vivid.ActorFN(func(ctx vivid.ActorContext) {
		if _, ok := ctx.Message().(*vivid.OnLaunch); ok {
			mu.Lock()
			parentLaunch++
			first := parentLaunch == 1
			mu.Unlock()
			if first {
				ctx.ActorOf(vivid.ActorFN(func(ctx vivid.ActorContext) {
					switch ctx.Message().(type) {
					case *vivid.OnLaunch:
						mu.Lock()
						childLaunch++
						mu.Unlock()
					case string:
						if failOnce.CompareAndSwap(false, true) {
							panic("boom")
						}
					}
				}), vivid.WithActorName("child"))
			}
		}
	}), vivid.WithActorName("parent"), vivid.WithActorSupervisionStrategy(vivid.OneForOneStrategy(vivid.SupervisionStrategyDecisionMakerFN(func(ctx vivid.SupervisionContext) (vivid.SupervisionDecision, string) {
		return vivid.SupervisionDecisionRestart, "r"
	}))))
	time.Sleep(50 * time.Millisecond)
	ref, _ := s.FindActor("localhost/parent/child")
	s.Tell(ref, "fail")
	time.Sleep(300 * time.Millisecond)
	mu.Lock()
	defer mu.Unlock()
	if parentLaunch != 1 || childLaunch != 2 {
		t.Fatalf("after one restart of the child: parent saw %d OnLaunch, child saw %d (want 1 and 2)", parentLaunch, childLaunch)
	}
}

func TestReplayC08UnexpectedDecisionIsEscalated(t *testing.T) {
	s := replaySys(t)
	defer s.Stop()
	var child vivid.ActorRef
	ready := make(chan struct{})
	s.ActorOf(vivid.ActorFN(func(ctx vivid.ActorContext) {
		if _, ok := ctx.Message().(*vivid.OnLaunch); ok {
			child, _ = ctx.ActorOf(vivid.ActorFN(func(ctx vivid.ActorContext) {
				if m, ok := ctx.Message().(int); ok && m == 0 {
					panic("boom")
				}
			}), vivid.WithActorName("c"))
			close(ready)
		}
	}), vivid.WithActorName("p"), vivid.WithActorSupervisionStrategy(vivid.OneForOneStrategy(vivid.SupervisionStrategyDecisionMakerFN(func(ctx vivid.SupervisionContext) (vivid.SupervisionDecision, string) {
		return vivid.SupervisionDecision(0), "not a decision"
	}))))
	<-ready
	s.Tell(child, 0)
	time.Sleep(400 * time.Millisecond)
	// documented: an unexpected value is treated as Escalate; the top-level default then stops /p (and its child)
	if _, still := s.actorContexts.Load("/p"); still {
		t.Fatalf("an unexpected decision value did nothing: the failed child stays paused for ever and its supervisor /p is still registered")
	}
}

func TestReplayC10EqualsAgainstTheRootsNilParent(t *testing.T) {
	s := replaySys(t)
	defer s.Stop()
	defer func() {
		if r := recover(); r != nil {
			t.Fatalf("Ref.Equals dereferenced a nil *Ref held in an ActorRef: %v", r)
		}
	}()
	var none vivid.ActorRef = s.Context.parent // the root has no parent: a nil *Ref inside the interface
	if s.ref.Equals(none) {
		t.Fatalf("a reference equals 'no reference'")
	}
}

func TestReplayC07StopAfterContextCancelReturns(t *testing.T) {
	ctx, cancel := context.WithCancel(context.Background())
	s := replaySys(t, vivid.WithActorSystemContext(ctx))
	cancel() // wakes the guardian goroutine, which stops the system
	time.Sleep(300 * time.Millisecond)
	done := make(chan error, 1)
	go func() { done <- s.Stop() }()
	select {
	case <-done: // an error ("already stopped") is fine; what matters is that it returns
	case <-time.After(3 * time.Second):
		t.Fatalf("Stop after the system context was cancelled does not return: the guardian goroutine dead-locked holding statusLock")
	}
}
