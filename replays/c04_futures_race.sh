#!/bin/bash
# Replay criterion for C04 removeFuturesByAgentPath/guard#3: the race detector reports no data race that names
# removeFuturesByAgentPath (other, separately recorded races of the futures - e.g. the timer field - may still be
# reported by the same run and are not this obligation's business).
out=$("$(dirname "$0")/run.sh" "$(dirname "$0")/c04_futures_race_test.go" internal/actor TestReplayC04KillRacesAskTimeouts -race 2>&1)
if echo "$out" | grep -q "removeFuturesByAgentPath"; then
  echo "FAIL: data race involving removeFuturesByAgentPath"; echo "$out" | grep -B2 -A12 "removeFuturesByAgentPath" | head -40; exit 1
fi
echo "ok: no data race involving removeFuturesByAgentPath"
