package actor

// Replay for C03 obligation (*actor.killedHandler).cleanupIfNotRestarting/post#1 - "an actor that terminates does
// not leave its mailbox paused". History from the failed obligation: the actor fails (its mailbox is paused while
// the parent decides), more user mail is queued behind the failing message, the default top-level strategy stops
// the actor. Injected with `go test -overlay` (replays/run.sh); not part of the repository.

import (
	"sync/atomic"
	"testing"
	"time"

	"github.com/kercylan98/vivid"
	"github.com/kercylan98/vivid/pkg/log"
	"github.com/kercylan98/vivid/pkg/ves"
)

func TestReplayC03MailParkedInStoppedActor(t *testing.T) {
	s := NewSystem(vivid.WithActorSystemLogger(log.NewTextLogger(log.WithLevel(log.LevelError + 4))))
	if err := s.Start(); err != nil {
		t.Fatal(err)
	}
	defer s.Stop()
	var dead, handled atomic.Int64
	s.ActorOf(vivid.ActorFN(func(ctx vivid.ActorContext) {
		switch m := ctx.Message().(type) {
		case *vivid.OnLaunch:
			ctx.EventStream().Subscribe(ctx, ves.DeathLetterEvent{})
		case ves.DeathLetterEvent:
			if _, ok := m.Envelope.Message().(int); ok {
				dead.Add(1)
			}
		}
	}))
	time.Sleep(30 * time.Millisecond)
	ref, _ := s.ActorOf(vivid.ActorFN(func(ctx vivid.ActorContext) {
		if m, ok := ctx.Message().(int); ok {
			if m == 0 {
				time.Sleep(50 * time.Millisecond) // let the other four queue up behind this one
				panic("boom")
			}
			handled.Add(1)
		}
	}), vivid.WithActorName("victim"))
	for i := 0; i < 5; i++ {
		s.Tell(ref, i)
	}
	time.Sleep(600 * time.Millisecond)
	// message 0 failed; the default strategy stops the actor: the other four must be processed or dead-lettered
	if lost := 4 - handled.Load() - dead.Load(); lost != 0 {
		t.Fatalf("5 sent, the first fails and the actor is stopped: of the other 4, %d were processed, %d dead-lettered, %d silently lost", handled.Load(), dead.Load(), lost)
	}
}
