package messages

// Replays for the three C13 obligations that failed before their fixes (4aa76f9, c5606e2, 794a552): the codec is
// total - Write / QueryMessageDesc / the PongMessage writer answer with an error, never with a crash. Each test
// runs the input in a child goroutine-free way and converts a panic into a test failure; unbounded recursion (the
// pre-fix behaviour for unsupported kinds) is cut off by a depth guard through the stack limit. Injected with
// `go test -overlay` (replays/run.sh); not part of the repository.

import (
	"runtime/debug"
	"testing"
)

type replayNamed int32

func replayNoPanic(t *testing.T, what string, f func()) {
	t.Helper()
	defer func() {
		if r := recover(); r != nil {
			t.Fatalf("%s panicked: %v", what, r)
		}
	}()
	f()
}

func TestReplayC13WriteNilAndUnsupported(t *testing.T) {
	debug.SetMaxStack(64 << 20) // a runaway recursion dies quickly (fatal: the test binary fails)
	for _, v := range []any{(*uint32)(nil), replayNamed(3), map[string]int{}, make(chan int)} {
		replayNoPanic(t, "Write", func() {
			w := NewWriter()
			w.Write(v)
			if w.Err() == nil {
				t.Errorf("Write(%T) reported no error", v)
			}
		})
	}
}

func TestReplayC13QueryMessageDescNil(t *testing.T) {
	replayNoPanic(t, "QueryMessageDesc(nil)", func() {
		if !QueryMessageDesc(nil).IsOutside() {
			t.Errorf("nil message is not reported as unregistered")
		}
	})
	replayNoPanic(t, "QueryMessageDesc(non-pointer)", func() {
		if !QueryMessageDesc("s").IsOutside() {
			t.Errorf("non-pointer message is not reported as unregistered")
		}
	})
}

func TestReplayC13PongMessageNilPing(t *testing.T) {
	replayNoPanic(t, "PongMessage{Ping:nil} writer", func() {
		w := NewWriter()
		if err := onPongMessageWriter(&PongMessage{}, w, nil); err == nil {
			t.Errorf("writer accepted a PongMessage without its Ping")
		}
	})
}
