#!/bin/bash
# Replay criterion for C04 PipeTo/published#1: the race detector reports no data race that names PipeTo (other,
# separately recorded races of the futures - e.g. the timer field - are not this obligation's business).
out=$("$(dirname "$0")/run.sh" "$(dirname "$0")/c04_pipeto_unpublished_test.go" internal/future TestReplayC04PipeToDuringCompletion -race 2>&1)
if echo "$out" | grep -q "PipeTo"; then
  echo "FAIL: unordered read in PipeTo (data race with the completing close())"; echo "$out" | grep -B3 -A14 "PipeTo" | head -50; exit 1
fi
echo "$out" | tail -2
echo "ok: no data race involving PipeTo"
