package actor

// Replay for C06 obligation (*actor.Context).onKilled/post#3 - "an actor that has been released is not a zombie
// any more (termination is reported once)". History from the failed obligation: an actor whose restart hook fails
// becomes a zombie; it is then killed several times through the reference its parent holds. Injected with
// `go test -overlay` (replays/run.sh); not part of the repository.

import (
	"errors"
	"sync/atomic"
	"testing"
	"time"

	"github.com/kercylan98/vivid"
	"github.com/kercylan98/vivid/pkg/log"
	"github.com/kercylan98/vivid/pkg/ves"
)

type replayZombieActor struct{}

func (z *replayZombieActor) OnReceive(ctx vivid.ActorContext) {
	if s, ok := ctx.Message().(string); ok && s == "boom" {
		panic("boom")
	}
}
func (z *replayZombieActor) OnRestarted(ctx vivid.RestartContext) error { return errors.New("hook fails") }

func TestReplayC06ZombieTerminatesOnce(t *testing.T) {
	s := NewSystem(vivid.WithActorSystemLogger(log.NewTextLogger(log.WithLevel(log.LevelError + 4))))
	if err := s.Start(); err != nil {
		t.Fatal(err)
	}
	defer s.Stop()
	var notices, events atomic.Int64
	var child vivid.ActorRef
	ready := make(chan struct{})
	s.ActorOf(vivid.ActorFN(func(ctx vivid.ActorContext) {
		switch m := ctx.Message().(type) {
		case *vivid.OnLaunch:
			ctx.EventStream().Subscribe(ctx, ves.ActorKilledEvent{})
			child, _ = ctx.ActorOf(&replayZombieActor{}, vivid.WithActorName("z"))
			close(ready)
		case *vivid.OnKilled:
			if !m.Ref.Equals(ctx.Ref()) {
				notices.Add(1)
			}
		case ves.ActorKilledEvent:
			if m.ActorRef.GetPath() == "/p/z" {
				events.Add(1)
			}
		}
	}), vivid.WithActorName("p"), vivid.WithActorSupervisionStrategy(vivid.OneForOneStrategy(vivid.SupervisionStrategyDecisionMakerFN(func(ctx vivid.SupervisionContext) (vivid.SupervisionDecision, string) {
		return vivid.SupervisionDecisionRestart, "r"
	}))))
	<-ready
	s.Tell(child, "boom") // fails -> restart -> OnRestarted fails -> zombie
	time.Sleep(200 * time.Millisecond)
	for i := 0; i < 3; i++ {
		s.Kill(child, false, "k")
	}
	time.Sleep(300 * time.Millisecond)
	if notices.Load() != 1 || events.Load() != 1 {
		t.Fatalf("zombie killed 3 times: parent got %d OnKilled notices and %d ActorKilledEvents for it, want exactly 1 and 1", notices.Load(), events.Load())
	}
}
