package serialize

// Replay for C13 obligations EncodeEnvelopWithRemoting/nil#7 and DecodeEnvelopWithRemoting/nil#21 (and the same
// two call sites in messages.Writer.WriteMessage / Reader.ReadMessage): with NO user codec configured (the default)
// a message that is not in the registry must give an error, not a call through a nil interface. Injected with
// `go test -overlay` (replays/run.sh); not part of the repository.

import (
	"testing"

	"github.com/kercylan98/vivid"
	"github.com/kercylan98/vivid/internal/mailbox"
	"github.com/kercylan98/vivid/internal/messages"
)

type replayUnregistered struct{ N int }

func TestReplayC13NilCodecEncode(t *testing.T) {
	defer func() {
		if r := recover(); r != nil {
			t.Fatalf("encoding an unregistered message without a codec panicked: %v", r)
		}
	}()
	var none vivid.Codec
	if _, err := EncodeEnvelopWithRemoting(none, mailbox.NewEnvelop(false, nil, nil, &replayUnregistered{N: 1})); err == nil {
		t.Fatalf("no error for an unregistered message without a codec")
	}
	w := messages.NewWriter()
	if err := w.WriteMessage(&replayUnregistered{N: 1}, nil); err == nil {
		t.Fatalf("WriteMessage: no error for an unregistered message without a codec")
	}
}

func TestReplayC13NilCodecDecode(t *testing.T) {
	defer func() {
		if r := recover(); r != nil {
			t.Fatalf("decoding a frame that names an unregistered message without a codec panicked: %v", r)
		}
	}()
	// a well-formed envelope whose message name is not registered: payload, name, system, four reference strings
	w := messages.NewWriter()
	if err := w.WriteFrom([]byte{1, 2, 3}, "no.such.Message", false, "", "", "", ""); err != nil {
		t.Fatal(err)
	}
	var none vivid.Codec
	if _, _, _, _, _, _, err := DecodeEnvelopWithRemoting(none, w.Bytes()); err == nil {
		t.Fatalf("no error for an unregistered message name without a codec")
	}
	w2 := messages.NewWriter()
	if err := w2.WriteFrom([]byte{1, 2, 3}, "no.such.Message"); err != nil {
		t.Fatal(err)
	}
	if _, err := messages.NewReader(w2.Bytes()).ReadMessage(nil); err == nil {
		t.Fatalf("ReadMessage: no error for an unregistered message name without a codec")
	}
}
