package actor

// Replays for two C03 obligations of (*actor.Context).HandleEnvelop, injected with `go test -overlay`
// (replays/run.sh); not part of the repository.
//   post#1    - a dead letter that cannot be delivered is dropped, causing no further work
//   post#6..8 - mail that reaches the root's mailbox as findMailbox's fallback is dead-lettered exactly once

import (
	"sync/atomic"
	"syscall"
	"testing"
	"time"

	"github.com/kercylan98/vivid"
	"github.com/kercylan98/vivid/pkg/log"
	"github.com/kercylan98/vivid/pkg/ves"
)

func replaySystem(t *testing.T) *System {
	s := NewSystem(vivid.WithActorSystemLogger(log.NewTextLogger(log.WithLevel(log.LevelError + 4))))
	if err := s.Start(); err != nil {
		t.Fatal(err)
	}
	return s
}

func replayCPUms() int64 {
	var ru syscall.Rusage
	syscall.Getrusage(syscall.RUSAGE_SELF, &ru)
	return (ru.Utime.Sec+ru.Stime.Sec)*1000 + (ru.Utime.Usec+ru.Stime.Usec)/1000
}

// after the system has stopped, an undeliverable message must be dropped without causing further work
func TestReplayC03DeadLetterAfterStop(t *testing.T) {
	s := replaySystem(t)
	ref, _ := s.ActorOf(vivid.ActorFN(func(ctx vivid.ActorContext) {}), vivid.WithActorName("x"))
	s.Stop()
	time.Sleep(50 * time.Millisecond)
	s.Tell(ref, "late")
	time.Sleep(100 * time.Millisecond)
	b := replayCPUms()
	time.Sleep(300 * time.Millisecond)
	if used := replayCPUms() - b; used > 150 {
		t.Fatalf("a late Tell after Stop keeps the stopped system busy: %d ms CPU in a 300 ms idle window (the dead letter is re-wrapped for ever)", used)
	}
}

// mail to a terminated / never existing local actor is dead-lettered exactly once however the reference was obtained
func TestReplayC03FallbackMailIsDeadLettered(t *testing.T) {
	s := replaySystem(t)
	defer s.Stop()
	var dead atomic.Int64
	s.ActorOf(vivid.ActorFN(func(ctx vivid.ActorContext) {
		switch m := ctx.Message().(type) {
		case *vivid.OnLaunch:
			ctx.EventStream().Subscribe(ctx, ves.DeathLetterEvent{})
		case ves.DeathLetterEvent:
			if _, ok := m.Envelope.Message().(string); ok {
				dead.Add(1)
			}
		}
	}))
	time.Sleep(30 * time.Millisecond)
	done := make(chan struct{})
	ref, _ := s.ActorOf(vivid.ActorFN(func(ctx vivid.ActorContext) {
		if m, ok := ctx.Message().(*vivid.OnKilled); ok && m.Ref.Equals(ctx.Ref()) {
			close(done)
		}
	}), vivid.WithActorName("gone"))
	s.Kill(ref, false, "x")
	<-done
	time.Sleep(50 * time.Millisecond)
	try := func(name string, r vivid.ActorRef) {
		b := dead.Load()
		s.Tell(r, "to-"+name)
		time.Sleep(100 * time.Millisecond)
		if got := dead.Load() - b; got != 1 {
			t.Errorf("%s: %d dead letters for one undeliverable message, want exactly 1", name, got)
		}
	}
	try("ref returned by ActorOf", ref)
	try("clone", ref.Clone())
	p, _ := s.ParseRef("localhost/gone")
	try("parsed ref of the terminated actor", p)
	n, _ := s.ParseRef("localhost/never")
	try("parsed ref of an actor that never existed", n)
}
