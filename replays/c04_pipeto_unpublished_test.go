package future

// Replay for C04 obligation (*future.Future[vivid.Message]).PipeTo/published#1 - "message / err are published through
// the done channel: everybody but the completing call reads them only after receiving from done". PipeTo on a future
// whose completion is in progress sees closed == true (set by the CompareAndSwap at the START of close()) and reads
// message / err without waiting for done: nothing orders those reads after the writes in close(), so the forwarder can
// be told a result that is not there yet. Schedule from the failed obligation: the completing goroutine is held in the
// closer callback (after the CompareAndSwap, before it reaches the forwarder hand-over) while another goroutine
// pipes. Run with -race (replays/c04_pipeto_unpublished.sh): the detector reports the unordered read. Injected with
// `go test -overlay`; not part of the repository.

import (
	"sync"
	"testing"
	"time"

	"github.com/kercylan98/vivid"
)

type replayLiaison struct {
	vivid.ActorLiaison
	mu   sync.Mutex
	told []vivid.Message
}

func (l *replayLiaison) Tell(_ vivid.ActorRef, m vivid.Message) {
	l.mu.Lock()
	l.told = append(l.told, m)
	l.mu.Unlock()
}

type replayRef struct{ vivid.ActorRef }

func (replayRef) GetAddress() string       { return "localhost:0" }
func (replayRef) GetPath() vivid.ActorPath { return "/forwarder" }

func TestReplayC04PipeToDuringCompletion(t *testing.T) {
	release := make(chan struct{})
	l := &replayLiaison{}
	f := NewFuture[vivid.Message](l, 0, func() { <-release })
	done := make(chan struct{})
	go func() { f.EnqueueMessage("reply"); close(done) }()
	// no synchronisation with the completing goroutine on purpose (a channel or an atomic flag set in the closer
	// would itself order its writes before the reads below and hide the missing edge): just give it time to park
	time.Sleep(300 * time.Millisecond)
	if err := f.PipeTo(vivid.ActorRefs{replayRef{}}); err != nil { // completion in progress: closed is set
		t.Fatal(err)
	}
	close(release)
	<-done
	l.mu.Lock()
	defer l.mu.Unlock()
	if len(l.told) != 1 {
		t.Fatalf("forwarder told %d times, want once", len(l.told))
	}
	if pr := l.told[0].(*vivid.PipeResult); pr.Message != "reply" || pr.Error != nil {
		t.Fatalf("forwarder got (%v, %v), want (reply, <nil>)", pr.Message, pr.Error)
	}
}
