package mailbox

// Replay for C01 obligation (*mailbox.UnboundedMailbox).process/loop#1:increases#1 - "every trip round the
// retry loop hands over at least one envelope". Input found from the failed obligation: paused mailbox, one
// user envelope queued. Injected with `go test -overlay` (see replays/run.sh); not part of the repository.

import (
	"runtime"
	"testing"
	"time"

	"github.com/kercylan98/vivid"
)

type replayHandler struct{ n int }

func (h *replayHandler) HandleEnvelop(e vivid.Envelop) { h.n++ }

func TestReplayC01PausedSpin(t *testing.T) {
	h := &replayHandler{}
	m := NewUnboundedMailbox(16, h)
	base := runtime.NumGoroutine()
	m.Pause()
	m.Enqueue(NewEnvelop(false, nil, nil, "user"))
	time.Sleep(200 * time.Millisecond)
	if g := runtime.NumGoroutine(); g > base {
		t.Fatalf("consumer goroutine still running while the mailbox is paused with nothing it may process (goroutines %d > %d): it spins", g, base)
	}
	if h.n != 0 {
		t.Fatalf("user message handled while paused")
	}
	m.Resume()
	time.Sleep(100 * time.Millisecond)
	if h.n != 1 {
		t.Fatalf("waiting message not processed after Resume: handled %d", h.n)
	}
}
