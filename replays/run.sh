#!/bin/bash
# usage: replays/run.sh <replay test file> <package dir relative to repo> <TestName> : injects the test into the
# package of the real code with `go test -overlay` (nothing is written to the repository) and runs it.
set -e
. "$(dirname "$0")/../env.sh" 2>/dev/null
REPO=${VERIF_REPO:-/repo}
f=$(readlink -f "$1"); pkg=$2; name=$3; shift 3 # further arguments are passed to go test (e.g. -race)
ov=$(mktemp /tmp/verif-ov.XXXXXX.json)
trap 'rm -f "$ov"' EXIT
printf '{"Replace":{"%s/%s/zz_replay_verif_test.go":"%s"}}\n' "$REPO" "$pkg" "$f" > "$ov"
cd "$REPO" && go test "$@" -overlay "$ov" -vet=off -count=1 -timeout 120s -run "^$name\$" "./$pkg"
