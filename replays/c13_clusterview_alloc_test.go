package cluster

// Replay for C13 obligation cluster.readClusterView/alloc#1 - "allocation proportional to the input". Input from
// the failed obligation: a 33-byte view header that declares 2^24 members and then ends. Injected with
// `go test -overlay` (replays/run.sh); not part of the repository.

import (
	"runtime"
	"testing"

	"github.com/kercylan98/vivid/internal/messages"
)

func TestReplayC13ClusterViewDeclaredCountAllocation(t *testing.T) {
	w := messages.NewWriter()
	if err := w.WriteFrom(uint32(1), "", int64(0), int64(0), uint32(1<<24)); err != nil {
		t.Fatal(err)
	}
	data := w.Bytes()
	var before, after runtime.MemStats
	runtime.GC()
	runtime.ReadMemStats(&before)
	_, err := readClusterView(messages.NewReader(data))
	runtime.ReadMemStats(&after)
	if err == nil {
		t.Fatalf("a truncated view decoded without error")
	}
	if grown := after.TotalAlloc - before.TotalAlloc; grown > 1<<20 {
		t.Fatalf("decoding %d input bytes allocated %d MiB (the declared member count is trusted)", len(data), grown>>20)
	}
}
