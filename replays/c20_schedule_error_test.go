package actor

// Replay for C20 obligation (*actor.Scheduler).scheduleJob/post#6 - "a nil result means the job really is
// scheduled". Input from the failed obligation: the underlying scheduler refuses the job (here: a reference that
// is already scheduled). Injected with `go test -overlay` (replays/run.sh); not part of the repository.

import (
	"sync/atomic"
	"testing"
	"time"

	"github.com/kercylan98/vivid"
	"github.com/kercylan98/vivid/pkg/log"
)

func TestReplayC20RefusedJobReportedAsScheduled(t *testing.T) {
	s := NewSystem(vivid.WithActorSystemLogger(log.NewTextLogger(log.WithLevel(log.LevelError + 4))))
	if err := s.Start(); err != nil {
		t.Fatal(err)
	}
	defer s.Stop()
	var delivered atomic.Int64
	var e1, e2 error
	launched := make(chan struct{})
	s.ActorOf(vivid.ActorFN(func(ctx vivid.ActorContext) {
		switch ctx.Message().(type) {
		case *vivid.OnLaunch:
			e1 = ctx.Scheduler().Once(ctx.Ref(), 50*time.Millisecond, "first", vivid.WithSchedulerReference("job"))
			e2 = ctx.Scheduler().Once(ctx.Ref(), 50*time.Millisecond, "second", vivid.WithSchedulerReference("job"))
			close(launched)
		case string:
			delivered.Add(1)
		}
	}))
	<-launched
	time.Sleep(400 * time.Millisecond)
	want := int64(0)
	if e1 == nil {
		want++
	}
	if e2 == nil {
		want++
	}
	if got := delivered.Load(); got != want {
		t.Fatalf("Once returned nil %d times (err1=%v err2=%v) but %d messages were delivered: a job the scheduler refused is reported as scheduled", want, e1, e2, got)
	}
}
