package actor

// Replay for C04/C10 obligation (*actor.System).removeFuturesByAgentPath/guard#3 - "every access to the Ask
// registration table, including the inner maps read out of it, holds futureLock". Schedule from the failed
// obligation: the kill path ranges over an asker's inner map after releasing the lock while that asker's Asks
// time out (their closers delete from the same map). Run with -race (replays/run.sh ... -race); injected with
// `go test -overlay`; not part of the repository.

import (
	"testing"
	"time"

	"github.com/kercylan98/vivid"
	"github.com/kercylan98/vivid/pkg/log"
)

func TestReplayC04KillRacesAskTimeouts(t *testing.T) {
	s := NewSystem(vivid.WithActorSystemLogger(log.NewTextLogger(log.WithLevel(log.LevelError + 4))))
	if err := s.Start(); err != nil {
		t.Fatal(err)
	}
	defer s.Stop()
	mute, _ := s.ActorOf(vivid.ActorFN(func(ctx vivid.ActorContext) {}), vivid.WithActorName("mute"))
	for round := 0; round < 30; round++ {
		asker, _ := s.ActorOf(vivid.ActorFN(func(ctx vivid.ActorContext) {
			if _, ok := ctx.Message().(*vivid.OnLaunch); ok {
				for i := 0; i < 200; i++ {
					ctx.Ask(mute, i, time.Duration(1+i%5)*time.Millisecond)
				}
			}
		}))
		time.Sleep(2 * time.Millisecond)
		s.Kill(asker, false, "x")
	}
	time.Sleep(200 * time.Millisecond)
}
