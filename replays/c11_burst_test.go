package actor

// Replay for C11 obligations (*remoting.tcpConnectionActor).onReadConn/at:HandleRemotingEnvelop/callsite#1 and
// at:TellSelf/callsite#2 - "handling one frame takes exactly that frame's bytes from the connection". Input from
// the failed obligation: a second frame already waiting in the connection when the first is read (a burst).
// Injected with `go test -overlay` (replays/run.sh); not part of the repository.

import (
	"sync/atomic"
	"testing"
	"time"

	"github.com/kercylan98/vivid"
	"github.com/kercylan98/vivid/pkg/log"
)

func TestReplayC11BurstOverHealthyLink(t *testing.T) {
	mk := func(addr string) *System {
		s := NewSystem(vivid.WithActorSystemLogger(log.NewTextLogger(log.WithLevel(log.LevelError+4))), vivid.WithActorSystemRemoting(addr))
		if err := s.Start(); err != nil {
			t.Fatal(err)
		}
		return s
	}
	a := mk("127.0.0.1:28190")
	b := mk("127.0.0.1:28191")
	defer a.Stop()
	defer b.Stop()
	var got, outOfOrder atomic.Int64
	var last int64 = -1
	ref, _ := a.ActorOf(vivid.ActorFN(func(ctx vivid.ActorContext) {
		if m, ok := ctx.Message().(*vivid.Pong); ok {
			n := m.PingTime.UnixNano()
			if n != last+1 {
				outOfOrder.Add(1)
			}
			last = n
			got.Add(1)
		}
	}), vivid.WithActorName("sink"))
	remote, _ := b.CreateRef("127.0.0.1:28190", ref.GetPath())
	const sent = 200
	for i := 0; i < sent; i++ {
		b.Tell(remote, &vivid.Pong{PingTime: time.Unix(0, int64(i)), RespondTime: time.Unix(0, 1)})
	}
	deadline := time.Now().Add(3 * time.Second)
	for got.Load() < sent && time.Now().Before(deadline) {
		time.Sleep(20 * time.Millisecond)
	}
	if got.Load() != sent || outOfOrder.Load() != 0 {
		t.Fatalf("burst over a healthy link: sent %d, delivered %d, out of order %d", sent, got.Load(), outOfOrder.Load())
	}
}
