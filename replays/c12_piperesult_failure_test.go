package serialize

// Replay for C12 obligation vivid.lemmaRoundTripPipeResultFailure/post#1: a PipeResult that reports a FAILURE carries
// no message (Message == nil, Error != nil) - it is what PipeTo sends to its forwarders when the piped Ask timed out
// or failed. In the default configuration (no user codec) it must still be encodable for a remote forwarder and come
// back with the same id, no message and the same error code and description. Injected with `go test -overlay`
// (replays/run.sh); not part of the repository.

import (
	"errors"
	"testing"

	"github.com/kercylan98/vivid"
	"github.com/kercylan98/vivid/internal/mailbox"
)

func TestReplayC12PipeResultFailure(t *testing.T) {
	var none vivid.Codec
	sent := &vivid.PipeResult{Id: "pipe-1", Error: vivid.ErrorFutureTimeout}
	data, err := EncodeEnvelopWithRemoting(none, mailbox.NewEnvelop(false, nil, nil, sent))
	if err != nil {
		t.Fatalf("a failure PipeResult (no message) cannot be encoded: %v", err)
	}
	_, _, _, _, _, got, err := DecodeEnvelopWithRemoting(none, data)
	if err != nil {
		t.Fatalf("decoding it again failed: %v", err)
	}
	pr, ok := got.(*vivid.PipeResult)
	if !ok {
		t.Fatalf("decoded %T, want *vivid.PipeResult", got)
	}
	if pr.Id != sent.Id || pr.Message != nil || pr.Error == nil || !errors.Is(pr.Error, vivid.ErrorFutureTimeout) {
		t.Fatalf("decoded %+v, want id %q, no message, error %v", pr, sent.Id, sent.Error)
	}
}
