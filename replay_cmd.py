#!/usr/bin/env python3
"""./check replay <replay-file>

A replay file (out/replay/<id>/<obligation>.json) names ONE failed obligation. Replaying it means:
  1. if the obligation is recorded in known_findings.jsonl with a `replay_cmd` (a test against the real code,
     injected with `go test -overlay`), run that test: it fails while the defect is present;
  2. if the file carries its own replay command (bounded stand-ins), run it;
  3. otherwise re-discharge exactly that obligation against the current tree (`./check <id> quick`) and report
     whether it still fails - there is no concrete input to run (`no-failing-input-found`).
Exit status 1 = the violation reproduces, 0 = it does not."""
import json, os, subprocess, sys
here = os.path.dirname(os.path.abspath(__file__))
if len(sys.argv) != 2:
    print(__doc__); sys.exit(2)
rep = json.load(open(sys.argv[1]))
obl = rep.get('obligation', '')
print('property   :', rep.get('property'))
print('obligation :', obl)
for k in ('kind', 'where', 'what', 'status', 'error'):
    if rep.get(k): print('%-11s: %s' % (k, rep[k]))
if rep.get('solver_output'): print('solvers    :', ' | '.join(rep['solver_output'].strip().splitlines()))
if rep.get('model'): print('model      :', str(rep['model'])[:2000])
cmd = None
kf = os.path.join(here, 'known_findings.jsonl')
if os.path.exists(kf):
    for l in open(kf):
        l = l.strip()
        if not l: continue
        e = json.loads(l)
        if e.get('obligation') == obl and e.get('replay_cmd'):
            cmd = e['replay_cmd']
if cmd is None and isinstance(rep.get('replay'), dict) and rep['replay'].get('cmd'):
    cmd = rep['replay']['cmd']
if cmd:
    print('replaying against the real code:', cmd)
    r = subprocess.run(cmd, shell=True, cwd=here)
    print('REPRODUCED' if r.returncode != 0 else 'not reproduced (the replay passes on the current tree)')
    sys.exit(1 if r.returncode != 0 else 0)
pid = rep.get('property')
print('no concrete input recorded for this obligation: re-discharging it against the current tree (./check %s quick)' % pid)
r = subprocess.run(['./check', pid, 'quick'], cwd=here, capture_output=True, text=True)
still = [l for l in r.stdout.splitlines() if l.startswith('VIOLATION') and ('obligation=' + obl + ' ') in (l + ' ')]
if still:
    print(still[0]); print('REPRODUCED (the obligation still fails) no-failing-input-found'); sys.exit(1)
print('not reproduced: the obligation is discharged on the current tree'); sys.exit(0)
