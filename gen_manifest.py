#!/usr/bin/env python3
# Generates MANIFEST.json from specs/*.json + manifest_meta.json (kept tiny so that the manifest is always valid).
import json, os, glob, subprocess
here = os.path.dirname(os.path.abspath(__file__))
meta = json.load(open(os.path.join(here, 'manifest_meta.json')))
props = [json.loads(l) for l in open(os.path.join(here, 'properties.jsonl'))]
checks = []
claimed = set()
for p in props:
    pid = p['id']
    m = meta['checks'].get(pid)
    if not m or not os.path.exists(os.path.join(here, 'specs', pid + '.json')):
        continue
    claimed.add(pid)
    checks.append({
        'property_id': pid,
        'quick_cmd': f'./check {pid} quick',
        'thorough_cmd': f'./check {pid} thorough',
        'evidence_file': f'/verif/evidence/{pid}.json',
        'replay_cmd_template': './check replay {path}',
        'engine': 'govc',
        'level_claimed': {'category': 'proof', 'text': m['text'], 'design_ref': m.get('design_ref', 'DESIGN.md §8 ' + pid)},
        'level_note': m['note'],
        'technique': m.get('technique', 'contract-based deductive verification: weakest-precondition VCs generated from go/ssa of the real functions, contracts as //@ comments under build tag verif, discharged by z3/cvc5'),
    })
na = []
for p in props:
    if p['id'] not in claimed:
        na.append({'property_id': p['id'], 'reason': meta['not_applicable'].get(p['id'], 'not claimed')})
try:
    commits = subprocess.check_output(['git', '-C', '/repo', 'log', '--format=%H %s'], text=True).splitlines()
    hook_commits = [c.split()[0] for c in commits if c.split(' ', 1)[1].startswith('verif:')]
except Exception:
    hook_commits = []
man = {
    'version': 1,
    'setup_cmd': 'cd /verif && . ./env.sh && cd engine && go build -o bin/govc .',
    'hooks': {
        'guard': 'verif',
        'enable': 'go build tag `verif` (go build -tags verif); the contract files zz_contracts_verif.go are comment-only and only read by /verif/engine',
        'baseline_off_cmd': 'cd /repo && GOFLAGS=-mod=mod GOPROXY=off go test -json -vet=off -count=1 -timeout 25m ./...',
        'source_commits': hook_commits,
        'add_only': True,
    },
    'engines': [{'name': 'govc', 'path': '/verif/engine', 'serves_properties': sorted(claimed),
                 'kind_free_text': 'deductive verifier for Go written for this task: go/packages + go/ssa front end, contracts in //@ comments, VC generation in passive form, z3 4.8.12 / z3 5.1.0 / cvc5 1.0.3 raced per obligation'}],
    'checks': checks,
    'not_applicable': na,
    'notes': meta.get('notes', ''),
}
json.dump(man, open(os.path.join(here, 'MANIFEST.json'), 'w'), indent=1)
print('claimed', sorted(claimed), 'n/a', len(na))
