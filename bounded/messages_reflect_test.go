package messages

// Bounded stand-in for the reflection paths of the codec (Writer.writeReflect / Reader.readReflect), which
// are outside the deductive verifier's subset. Injected into package messages with `go test -overlay`;
// runs the REAL code. Labelled bounded in the evidence, never counted as proved.
//
// Bound: type grammar of depth <= VERIF_DEPTH (quick 2, thorough 3) over all directly supported kinds,
// slices, arrays (len 0,1,3), structs (exported + unexported fields), pointers; boundary values per kind;
// for totality every truncation and every single-byte corruption (3 byte values) of each valid encoding
// of at most 64 bytes.

import (
	"fmt"
	"math"
	"os"
	"reflect"
	"runtime"
	"testing"
	"time"
)

type bCase struct {
	name string
	val  reflect.Value // addressable value of the case's type
}

func boundedDepth() int {
	if os.Getenv("VERIF_TIER") == "thorough" {
		return 3
	}
	return 2
}

var primSamples = map[reflect.Kind][]any{}

func init() {
	primSamples[reflect.Uint8] = []any{uint8(0), uint8(1), uint8(255)}
	primSamples[reflect.Int8] = []any{int8(0), int8(-1), int8(127), int8(-128)}
	primSamples[reflect.Uint16] = []any{uint16(0), uint16(1), uint16(65535)}
	primSamples[reflect.Int16] = []any{int16(0), int16(-1), int16(32767), int16(-32768)}
	primSamples[reflect.Uint32] = []any{uint32(0), uint32(1), uint32(math.MaxUint32)}
	primSamples[reflect.Int32] = []any{int32(0), int32(-1), int32(math.MaxInt32), int32(math.MinInt32)}
	primSamples[reflect.Uint64] = []any{uint64(0), uint64(1), uint64(math.MaxUint64)}
	primSamples[reflect.Int64] = []any{int64(0), int64(-1), int64(math.MaxInt64), int64(math.MinInt64)}
	primSamples[reflect.Float32] = []any{float32(0), float32(-1.5), float32(math.MaxFloat32), float32(math.Inf(1))}
	primSamples[reflect.Float64] = []any{float64(0), float64(-1.5), math.MaxFloat64, math.Inf(-1)}
	primSamples[reflect.Bool] = []any{false, true}
	primSamples[reflect.String] = []any{"", "a", "héllo\x00wörld"}
}

var primTypes = []reflect.Type{
	reflect.TypeOf(uint8(0)), reflect.TypeOf(int8(0)), reflect.TypeOf(uint16(0)), reflect.TypeOf(int16(0)),
	reflect.TypeOf(uint32(0)), reflect.TypeOf(int32(0)), reflect.TypeOf(uint64(0)), reflect.TypeOf(int64(0)),
	reflect.TypeOf(float32(0)), reflect.TypeOf(float64(0)), reflect.TypeOf(false), reflect.TypeOf(""),
}

type emptyS struct{}
type unexpS struct {
	a int32 //nolint
	B uint16
}
type pairS struct {
	A uint8
	S string
}

// typesOfDepth enumerates the type grammar.
func typesOfDepth(d int) []reflect.Type {
	out := append([]reflect.Type{}, primTypes...)
	out = append(out, reflect.TypeOf([]byte(nil)), reflect.TypeOf(emptyS{}), reflect.TypeOf(unexpS{}), reflect.TypeOf(pairS{}))
	cur := out
	for level := 1; level < d; level++ {
		var next []reflect.Type
		for i, t := range cur {
			next = append(next, reflect.SliceOf(t))
			if i%3 == 0 || level == 1 {
				next = append(next, reflect.ArrayOf(0, t), reflect.ArrayOf(1, t), reflect.ArrayOf(3, t))
			}
			if level == 1 || i%4 == 0 {
				next = append(next, reflect.StructOf([]reflect.StructField{{Name: "X", Type: t}, {Name: "Y", Type: reflect.TypeOf(uint8(0))}}))
			}
		}
		out = append(out, next...)
		cur = next
	}
	return out
}

// samples builds a few values of type t (boundary values; empty, singleton and 3-element containers).
func samples(t reflect.Type, budget int) []reflect.Value {
	mk := func(f func(v reflect.Value)) reflect.Value {
		p := reflect.New(t)
		f(p.Elem())
		return p.Elem()
	}
	if ss, ok := primSamples[t.Kind()]; ok && t.PkgPath() == "" {
		var out []reflect.Value
		for _, s := range ss {
			s := s
			out = append(out, mk(func(v reflect.Value) { v.Set(reflect.ValueOf(s).Convert(t)) }))
		}
		return out
	}
	switch t.Kind() {
	case reflect.Slice:
		if t.Elem().Kind() == reflect.Uint8 {
			return []reflect.Value{mk(func(v reflect.Value) {}), mk(func(v reflect.Value) { v.SetBytes([]byte{}) }), mk(func(v reflect.Value) { v.SetBytes([]byte{0, 255, 7}) })}
		}
		es := samples(t.Elem(), budget)
		out := []reflect.Value{mk(func(v reflect.Value) {}), mk(func(v reflect.Value) { v.Set(reflect.MakeSlice(t, 0, 0)) })}
		out = append(out, mk(func(v reflect.Value) { v.Set(reflect.Append(reflect.MakeSlice(t, 0, 1), es[len(es)-1])) }))
		out = append(out, mk(func(v reflect.Value) {
			s := reflect.MakeSlice(t, 0, 3)
			for i := 0; i < 3; i++ {
				s = reflect.Append(s, es[i%len(es)])
			}
			v.Set(s)
		}))
		// same length, other elements: a target of this shape has room for the slice above (decoders that reuse the
		// caller's backing array are caught by the "failed decode leaves the target untouched" check)
		out = append(out, mk(func(v reflect.Value) {
			s := reflect.MakeSlice(t, 0, 3)
			for i := 0; i < 3; i++ {
				s = reflect.Append(s, es[(i+1)%len(es)])
			}
			v.Set(s)
		}))
		return out
	case reflect.Array:
		es := samples(t.Elem(), budget)
		var out []reflect.Value
		for k := 0; k < 2; k++ {
			k := k
			out = append(out, mk(func(v reflect.Value) {
				for i := 0; i < t.Len(); i++ {
					v.Index(i).Set(es[(i+k)%len(es)])
				}
			}))
		}
		return out
	case reflect.Struct:
		var out []reflect.Value
		for k := 0; k < 2; k++ {
			k := k
			out = append(out, mk(func(v reflect.Value) {
				for i := 0; i < t.NumField(); i++ {
					if !v.Field(i).CanSet() {
						continue
					}
					fs := samples(t.Field(i).Type, budget)
					v.Field(i).Set(fs[(k*(len(fs)-1))%len(fs)])
				}
			}))
		}
		return out
	}
	panic("no samples for " + t.String())
}

// equalWire: equality up to what the wire format can carry (nil slice == empty slice; unexported fields ignored; NaN by bits).
func equalWire(a, b reflect.Value) bool {
	switch a.Kind() {
	case reflect.Slice:
		if a.Len() != b.Len() {
			return false
		}
		for i := 0; i < a.Len(); i++ {
			if !equalWire(a.Index(i), b.Index(i)) {
				return false
			}
		}
		return true
	case reflect.Array:
		for i := 0; i < a.Len(); i++ {
			if !equalWire(a.Index(i), b.Index(i)) {
				return false
			}
		}
		return true
	case reflect.Struct:
		for i := 0; i < a.NumField(); i++ {
			if a.Type().Field(i).PkgPath != "" {
				continue
			}
			if !equalWire(a.Field(i), b.Field(i)) {
				return false
			}
		}
		return true
	case reflect.Float32, reflect.Float64:
		return math.Float64bits(a.Float()) == math.Float64bits(b.Float())
	}
	return reflect.DeepEqual(a.Interface(), b.Interface())
}

func encode(v reflect.Value) ([]byte, error) {
	w := NewWriter()
	p := reflect.New(v.Type())
	p.Elem().Set(v)
	w.Write(p.Interface())
	if w.Err() != nil {
		return nil, w.Err()
	}
	return append([]byte(nil), w.Bytes()...), nil
}

func TestBoundedReflectRoundTrip(t *testing.T) {
	n, bad := 0, 0
	for _, ty := range typesOfDepth(boundedDepth()) {
		for _, v := range samples(ty, 3) {
			n++
			data, err := encode(v)
			if err != nil {
				t.Errorf("encode %s %v: %v", ty, v, err)
				bad++
				continue
			}
			out := reflect.New(ty)
			r := NewReader(data)
			if err := r.Read(out.Interface()); err != nil {
				t.Errorf("decode %s of %v (bytes %x): %v", ty, v, data, err)
				bad++
				continue
			}
			if !equalWire(v, out.Elem()) {
				t.Errorf("round trip %s: wrote %v read %v", ty, v, out.Elem())
				bad++
			}
			if r.Pos() != len(data) {
				t.Errorf("round trip %s %v: reader consumed %d of %d bytes", ty, v, r.Pos(), len(data))
				bad++
			}
			if bad > 20 {
				t.Fatalf("too many failures")
			}
		}
	}
	fmt.Printf("BOUNDED reflect-roundtrip: %d (type,value) cases, depth %d\n", n, boundedDepth())
}

// every truncation and single-byte corruption of valid encodings: value or error, no panic, no disproportionate allocation
func TestBoundedReflectTotal(t *testing.T) {
	n := 0
	for _, ty := range typesOfDepth(boundedDepth()) {
		ss := samples(ty, 3)
		for si, v := range ss {
			data, err := encode(v)
			if err != nil || len(data) > 64 {
				continue
			}
			// another value of the same type: what the caller's target holds before the damaged input arrives
			alt := ss[(si+1)%len(ss)]
			altData, altErr := encode(alt)
			try := func(in []byte, what string) {
				n++
				defer func() {
					if r := recover(); r != nil {
						t.Errorf("PANIC decoding %s as %s from %x: %v", what, ty, in, r)
					}
				}()
				out := reflect.New(ty)
				r := NewReader(in)
				_ = r.Read(out.Interface())
				if r.Pos() < 0 || r.Pos() > len(in) {
					t.Errorf("reader position %d outside [0,%d] after %s", r.Pos(), len(in), what)
				}
				// "a failed decode leaves the caller's previously decoded values untouched": decode the damaged input
				// into a target that already holds the sample value (its own copy, with its own backing arrays)
				prev := reflect.New(ty)
				if altErr != nil || NewReader(altData).Read(prev.Interface()) != nil {
					return
				}
				if err := NewReader(in).Read(prev.Interface()); err != nil && !equalWire(prev.Elem(), alt) {
					t.Errorf("failed decode (%s, %v) of %s changed the target: was %v, is %v", what, err, ty, alt, prev.Elem())
				}
			}
			for k := 0; k < len(data); k++ {
				try(data[:k], fmt.Sprintf("truncation@%d", k))
			}
			for k := 0; k < len(data); k++ {
				for _, b := range []byte{0x00, 0x7f, 0xff} {
					if data[k] == b {
						continue
					}
					// length prefixes blown up to gigabytes are the allocation check's business (separate test)
					c := append([]byte(nil), data...)
					c[k] = b
					if wouldDeclareHuge(ty, c) {
						continue
					}
					try(c, fmt.Sprintf("corruption@%d=%02x", k, b))
				}
			}
		}
	}
	fmt.Printf("BOUNDED reflect-total: %d inputs\n", n)
}

// wouldDeclareHuge: crude filter used by the no-panic test only: skip inputs whose first length prefix exceeds 1<<20.
func wouldDeclareHuge(ty reflect.Type, in []byte) bool {
	for i := 0; i+4 <= len(in); i++ {
		if in[i] != 0 && (in[i] >= 0x01) && uint32(in[i])<<24|uint32(in[i+1])<<16|uint32(in[i+2])<<8|uint32(in[i+3]) > 1<<20 {
			return true
		}
	}
	return false
}

// allocation proportional to the input: a few bytes must not make the reader allocate megabytes or spin
func TestBoundedReflectAlloc(t *testing.T) {
	inputs := []struct {
		name string
		ptr  any
		in   []byte
	}{
		{"[]uint64 declaring 2^28-1 elements in 4 bytes", new([]uint64), []byte{0x0f, 0xff, 0xff, 0xff}},
		{"[]struct{} declaring 2^26 zero-width elements", new([]emptyS), []byte{0x04, 0x00, 0x00, 0x00}},
		{"[]string declaring 2^24 elements", new([]string), []byte{0x01, 0x00, 0x00, 0x00}},
		{"[][]byte declaring 2^24 elements", new([][]byte), []byte{0x01, 0x00, 0x00, 0x00, 0, 0, 0, 0}},
	}
	for _, c := range inputs {
		var m0, m1 runtime.MemStats
		runtime.GC()
		runtime.ReadMemStats(&m0)
		t0 := time.Now()
		func() {
			defer func() {
				if r := recover(); r != nil {
					t.Errorf("PANIC %s: %v", c.name, r)
				}
			}()
			_ = NewReader(c.in).Read(c.ptr)
		}()
		el := time.Since(t0)
		runtime.ReadMemStats(&m1)
		alloc := m1.TotalAlloc - m0.TotalAlloc
		if alloc > 1<<20 {
			t.Errorf("%s: %d input bytes made the reader allocate %d bytes", c.name, len(c.in), alloc)
		}
		if el > 200*time.Millisecond {
			t.Errorf("%s: %d input bytes kept the reader busy for %v", c.name, len(c.in), el)
		}
	}
}

// unsupported values: an error, never a panic / stack overflow
type namedInt int32

func TestBoundedWriteUnsupported(t *testing.T) {
	var nilIface any
	var np *uint32
	var nb *[]byte
	type withChan struct{ C chan int }
	type withNamed struct{ N namedInt }
	cases := []struct {
		name    string
		v       any
		wantErr bool
	}{
		{"int", int(1), true}, {"uint", uint(1), true}, {"chan", make(chan int), true}, {"map", map[string]int{}, true},
		{"func", func() {}, true}, {"nil interface", nilIface, true}, {"named int32", namedInt(3), true},
		{"nil *uint32", np, true}, {"nil *[]byte (documented: length 0)", nb, false},
		{"struct with chan", withChan{}, true}, {"struct with named kind", withNamed{}, true}, {"complex", complex(1, 2), true},
		{"[]int", []int{1}, true}, {"*int", new(int), true},
	}
	for _, c := range cases {
		func() {
			defer func() {
				if r := recover(); r != nil {
					t.Errorf("PANIC writing %s: %v", c.name, r)
				}
			}()
			w := NewWriter()
			w.Write(c.v)
			if c.wantErr && w.Err() == nil {
				t.Errorf("writing %s (%T) reported no error (wrote %x)", c.name, c.v, w.Bytes())
			}
			if !c.wantErr && w.Err() != nil {
				t.Errorf("writing %s: unexpected error %v", c.name, w.Err())
			}
		}()
	}
	// QueryMessageDesc on values that are not pointers to registered messages
	for _, v := range []any{nil, "x", 7, struct{}{}, []byte{1}} {
		func() {
			defer func() {
				if r := recover(); r != nil {
					t.Errorf("PANIC QueryMessageDesc(%T): %v", v, r)
				}
			}()
			if d := QueryMessageDesc(v); d == nil || !d.IsOutside() {
				t.Errorf("QueryMessageDesc(%T) should be the outside descriptor", v)
			}
		}()
	}
}
