#!/bin/bash
# usage: run.sh <pkgdir relative to repo> <bounded test file in /verif/bounded> <-run regex>
# injects the test into the package with -overlay (the repository is not touched) and runs it on the real code
. /verif/env.sh
REPO=${VERIF_REPO:-/repo}
PKG=$1; FILE=$2; RUN=$3
TMP=$(mktemp -d /verif/out/bounded.XXXXXX)
trap 'rm -rf $TMP' EXIT
cat > $TMP/ov.json <<EOJ
{"Replace": {"$REPO/$PKG/zz_bounded_verif_test.go": "/verif/bounded/$FILE"}}
EOJ
cd $REPO && go test -overlay $TMP/ov.json -vet=off -count=1 -timeout 300s -run "$RUN" ./$PKG
